//! C02 under Miri: the driver runs on the main thread, the device on a second real thread that
//! Acquire-loads the available index and then reads ring slot, descriptors, indirect table and
//! buffers with plain loads. Miri's seeded scheduler interleaves the two threads and its data-race
//! detector reports a missing release/acquire edge between the driver's stores to queue memory
//! and the publication of the available index (and, in the other direction, between the device's
//! completion and the driver's reuse of descriptors).
//!
//! The device also checks what it reads: an entry below the index it observed must be complete.

use core::ptr::NonNull;
use core::sync::atomic::{AtomicBool, AtomicU16, AtomicU64, Ordering};
use std::alloc::{Layout, alloc_zeroed, dealloc};
use std::sync::Arc;
use virtio_drivers::queue::VirtQueue;
use virtio_drivers::transport::{DeviceStatus, DeviceType, InterruptStatus, Transport};
use virtio_drivers::{BufferDirection, Hal, PhysAddr, Result};
use zerocopy::{FromBytes, Immutable, IntoBytes};

struct MiriHal;

// SAFETY: page-aligned zeroed allocations; identity mapping between "physical" and virtual.
unsafe impl Hal for MiriHal {
    fn dma_alloc(pages: usize, _d: BufferDirection, _ap: bool) -> (PhysAddr, NonNull<u8>) {
        let l = Layout::from_size_align(pages.max(1) * 4096, 4096).unwrap();
        // SAFETY: non-zero size
        let p = unsafe { alloc_zeroed(l) };
        (p as usize as u64, NonNull::new(p).unwrap())
    }
    unsafe fn dma_dealloc(_paddr: PhysAddr, vaddr: NonNull<u8>, pages: usize, _ap: bool) -> i32 {
        let l = Layout::from_size_align(pages.max(1) * 4096, 4096).unwrap();
        // SAFETY: allocated above with the same layout
        unsafe { dealloc(vaddr.as_ptr(), l) };
        0
    }
    unsafe fn mmio_phys_to_virt(paddr: PhysAddr, _size: usize) -> NonNull<u8> {
        NonNull::new(paddr as usize as *mut u8).unwrap()
    }
    unsafe fn share(buffer: NonNull<[u8]>, _d: BufferDirection, _ap: bool) -> PhysAddr {
        buffer.as_ptr() as *mut u8 as usize as u64
    }
    unsafe fn unshare(_paddr: PhysAddr, _buffer: NonNull<[u8]>, _d: BufferDirection, _ap: bool) {}
}

#[derive(Default)]
struct Shared {
    desc: AtomicU64,
    driver: AtomicU64,
    device: AtomicU64,
    size: AtomicU64,
    ready: AtomicBool,
    stop: AtomicBool,
    notified: AtomicU64,
}

struct T(Arc<Shared>);

impl Transport for T {
    fn device_type(&self) -> DeviceType {
        DeviceType::Block
    }
    fn read_device_features(&mut self) -> u64 {
        0
    }
    fn write_driver_features(&mut self, _f: u64) {}
    fn max_queue_size(&mut self, _q: u16) -> u32 {
        256
    }
    fn notify(&mut self, _q: u16) {
        self.0.notified.fetch_add(1, Ordering::Release);
    }
    fn get_status(&self) -> DeviceStatus {
        DeviceStatus::empty()
    }
    fn set_status(&mut self, _s: DeviceStatus) {}
    fn set_guest_page_size(&mut self, _s: u32) {}
    fn requires_legacy_layout(&self) -> bool {
        false
    }
    fn queue_set(&mut self, _q: u16, size: u32, d: PhysAddr, dr: PhysAddr, de: PhysAddr) {
        self.0.desc.store(d, Ordering::Relaxed);
        self.0.driver.store(dr, Ordering::Relaxed);
        self.0.device.store(de, Ordering::Relaxed);
        self.0.size.store(size as u64, Ordering::Relaxed);
        self.0.ready.store(true, Ordering::Release);
    }
    fn queue_unset(&mut self, _q: u16) {}
    fn queue_used(&mut self, _q: u16) -> bool {
        false
    }
    fn ack_interrupt(&mut self) -> InterruptStatus {
        InterruptStatus::empty()
    }
    fn read_config_generation(&self) -> u32 {
        0
    }
    fn read_config_space<V: FromBytes + IntoBytes>(&self, _o: usize) -> Result<V> {
        Err(virtio_drivers::Error::ConfigSpaceMissing)
    }
    fn write_config_space<V: IntoBytes + Immutable>(&mut self, _o: usize, _v: V) -> Result<()> {
        Err(virtio_drivers::Error::ConfigSpaceMissing)
    }
}

#[repr(C)]
#[derive(Clone, Copy)]
struct Desc {
    addr: u64,
    len: u32,
    flags: u16,
    next: u16,
}

/// The device: serves `total` chains, checking each one it finds below the available index.
fn device(sh: Arc<Shared>, total: u64, event_idx: bool) -> u64 {
    while !sh.ready.load(Ordering::Acquire) {
        std::thread::yield_now();
    }
    let n = sh.size.load(Ordering::Relaxed) as usize;
    let desc = sh.desc.load(Ordering::Relaxed) as usize as *const Desc;
    let avail = sh.driver.load(Ordering::Relaxed) as usize as *const u8;
    let used = sh.device.load(Ordering::Relaxed) as usize as *mut u8;
    // SAFETY: layout of the split virtqueue as registered by the driver
    let avail_idx = unsafe { &*(avail.add(2) as *const AtomicU16) };
    let used_idx = unsafe { &*(used.add(2) as *const AtomicU16) };
    let mut last_avail: u16 = 0;
    let mut used_count: u16 = 0;
    let mut served = 0u64;
    let mut sum = 0u64;
    while served < total && !sh.stop.load(Ordering::Relaxed) {
        let idx = avail_idx.load(Ordering::Acquire);
        if idx == last_avail {
            std::thread::yield_now();
            continue;
        }
        while last_avail != idx {
            let slot = last_avail as usize % n;
            // plain loads from here on: they are only race-free if the driver published with
            // release semantics after writing everything
            // SAFETY: inside the available ring
            let head = unsafe { (avail.add(4 + 2 * slot) as *const u16).read() };
            assert!((head as usize) < n, "head {head} out of range");
            let mut i = head;
            let mut written = 0u32;
            let mut hops = 0;
            loop {
                // SAFETY: inside the descriptor table
                let d = unsafe { desc.add(i as usize).read() };
                let (tbl, cnt) = if d.flags & 4 != 0 {
                    assert_eq!(d.flags, 4, "indirect descriptor with other flags");
                    assert!(d.len >= 16 && d.len % 16 == 0, "indirect table length {}", d.len);
                    (d.addr as usize as *const Desc, (d.len / 16) as usize)
                } else {
                    (core::ptr::null(), 0)
                };
                if cnt > 0 {
                    for k in 0..cnt {
                        // SAFETY: inside the indirect table the driver published
                        let e = unsafe { tbl.add(k).read() };
                        assert!(e.len > 0 && e.addr != 0, "incomplete indirect entry {k}");
                        written += touch(e, &mut sum);
                        if k + 1 < cnt {
                            assert!(e.flags & 1 != 0 && e.next as usize == k + 1, "indirect entry {k} not linked");
                        } else {
                            assert!(e.flags & 1 == 0, "last indirect entry has NEXT");
                        }
                    }
                    break;
                }
                assert!(d.len > 0 && d.addr != 0, "incomplete descriptor {i} visible below the available index");
                written += touch(d, &mut sum);
                if d.flags & 1 == 0 {
                    break;
                }
                i = d.next;
                assert!((i as usize) < n, "next out of range");
                hops += 1;
                assert!(hops <= n, "chain loops");
            }
            // complete it
            let us = used_count as usize % n;
            // SAFETY: inside the used ring
            unsafe {
                (used.add(4 + 8 * us) as *mut u32).write(head as u32);
                (used.add(8 + 8 * us) as *mut u32).write(written);
            }
            used_count = used_count.wrapping_add(1);
            used_idx.store(used_count, Ordering::Release);
            last_avail = last_avail.wrapping_add(1);
            served += 1;
            if event_idx {
                // SAFETY: avail_event lives after the used ring
                let ae = unsafe { &*(used.add(4 + 8 * n) as *const AtomicU16) };
                ae.store(last_avail, Ordering::Release);
            }
        }
    }
    sum
}

fn touch(d: Desc, sum: &mut u64) -> u32 {
    let p = d.addr as usize as *mut u8;
    if d.flags & 2 != 0 {
        for k in 0..d.len as usize {
            // SAFETY: device-writable buffer the driver shared
            unsafe { p.add(k).write(0xC0 | k as u8) };
        }
        d.len
    } else {
        for k in 0..d.len as usize {
            // SAFETY: device-readable buffer the driver shared
            *sum += unsafe { p.add(k).read() } as u64;
        }
        0
    }
}

fn scenario<const N: usize>(indirect: bool, event_idx: bool, rounds: u64, outstanding: usize) {
    let sh = Arc::new(Shared::default());
    let mut t = T(sh.clone());
    let total = rounds * outstanding as u64;
    let sh2 = sh.clone();
    let dev = std::thread::spawn(move || device(sh2, total, event_idx));
    let mut q = VirtQueue::<MiriHal, N>::new(&mut t, 0, indirect, event_idx, false).unwrap();
    // Buffers are leaked into raw pointers before they are shared and only touched again through
    // fresh slices after their completion was consumed: moving a Box while the device reads the
    // buffer would itself be a (harness) data race.
    fn raw(v: Vec<u8>) -> (*mut u8, usize) {
        let b = Box::leak(v.into_boxed_slice());
        (b.as_mut_ptr(), b.len())
    }
    for r in 0..rounds {
        let mut subs: Vec<(u16, [(*mut u8, usize); 3])> = Vec::new();
        for k in 0..outstanding {
            let bufs = [raw(vec![r as u8 + 1; 3 + k]), raw(vec![7u8; 2]), raw(vec![0u8; 5])];
            // SAFETY: leaked allocations, exclusively ours until shared
            let (a, b, c) = unsafe {
                (
                    core::slice::from_raw_parts(bufs[0].0, bufs[0].1),
                    core::slice::from_raw_parts(bufs[1].0, bufs[1].1),
                    core::slice::from_raw_parts_mut(bufs[2].0, bufs[2].1),
                )
            };
            // SAFETY: buffers stay allocated until popped
            let tok = unsafe { q.add(&[a, b], &mut [c]) }.unwrap();
            if q.should_notify() {
                t.notify(0);
            }
            subs.push((tok, bufs));
        }
        while !subs.is_empty() {
            let Some(tok) = q.peek_used() else {
                std::thread::yield_now();
                continue;
            };
            let i = subs.iter().position(|s| s.0 == tok).expect("unknown token");
            let (tok, bufs) = subs.remove(i);
            // SAFETY: the device has completed this chain (used index acquired by peek_used)
            let (a, b, c) = unsafe {
                (
                    core::slice::from_raw_parts(bufs[0].0, bufs[0].1),
                    core::slice::from_raw_parts(bufs[1].0, bufs[1].1),
                    core::slice::from_raw_parts_mut(bufs[2].0, bufs[2].1),
                )
            };
            // SAFETY: same buffers as at submission
            let len = unsafe { q.pop_used(tok, &[a, b], &mut [&mut *c]) }.unwrap();
            assert_eq!(len, 5);
            assert_eq!(c[4], 0xC4, "device bytes not visible after the completion was consumed");
            for (p, l) in bufs {
                // SAFETY: leaked above, no longer shared
                drop(unsafe { Box::from_raw(core::ptr::slice_from_raw_parts_mut(p, l)) });
            }
        }
    }
    sh.stop.store(true, Ordering::Relaxed);
    let _ = dev.join().unwrap();
}

fn main() {
    let which = std::env::args().nth(1).unwrap_or_else(|| "all".into());
    if which == "all" || which == "direct" {
        scenario::<8>(false, false, 3, 2);
    }
    if which == "all" || which == "indirect" {
        scenario::<4>(true, false, 3, 3);
    }
    if which == "all" || which == "event-idx" {
        scenario::<4>(false, true, 4, 1);
    }
    if which == "all" || which == "recycle" {
        scenario::<4>(true, true, 5, 4);
    }
    println!("miri scenarios ok: {which}");
}
