//! Bodies of the observation points declared in /repo/src/verif_hooks.rs.

use crate::world;

#[unsafe(no_mangle)]
fn __virtio_drivers_verif_store(kind: u32, queue: u16, index: u16) {
    if world::installed() {
        world::with(|w| w.on_store(kind, queue, index));
    }
}

#[unsafe(no_mangle)]
fn __virtio_drivers_verif_spin(site: u32) {
    if world::installed() {
        world::with(|w| w.on_spin(site));
    }
}
