//! The driver zoo: every driver of the crate x every transport kind, behind uniform helpers.

use crate::hal::SimHal;
use crate::mtransport::ModelTransport;
use crate::world::*;
use virtio_drivers::transport::{SomeTransport, Transport};
use virtio_drivers::{Error, Result};

#[derive(Copy, Clone, Debug, PartialEq, Eq)]
pub enum TKind {
    Model,
    ModelLegacy,
    ModelPciLike,
    MmioModern,
    MmioLegacy,
    SomeMmio,
    Pci,
    SomePci,
}

impl TKind {
    pub fn legacy(self) -> bool {
        matches!(self, TKind::ModelLegacy | TKind::MmioLegacy)
    }
    pub fn has_generation(self) -> bool {
        !self.legacy()
    }
}

pub const TKINDS: [TKind; 8] = [TKind::Model, TKind::ModelLegacy, TKind::ModelPciLike, TKind::MmioModern, TKind::MmioLegacy, TKind::SomeMmio, TKind::Pci, TKind::SomePci];

/// A computation generic over the transport type.
pub trait TransportFn<R> {
    fn call<T: Transport + 'static>(self, t: T) -> R;
}

/// Creates the transport of the given kind in front of the simulated device (the world must
/// already hold device type, features, queues and configuration) and runs `f` with it.
pub fn with_transport<R>(tk: TKind, f: impl TransportFn<R>) -> std::result::Result<R, String> {
    let (dt, clen) = with(|w| (w.tr.device_type, w.tr.config.len()));
    match tk {
        TKind::Model | TKind::ModelLegacy | TKind::ModelPciLike => {
            with(|w| {
                w.tr.legacy = tk == TKind::ModelLegacy;
                w.tr.pci_like = tk == TKind::ModelPciLike;
            });
            Ok(f.call(ModelTransport::new()))
        }
        TKind::MmioModern | TKind::MmioLegacy | TKind::SomeMmio => {
            let version = if tk == TKind::MmioLegacy { 1 } else { 2 };
            let t = crate::scen::c10::make_mmio(version, dt, clen)?;
            if tk == TKind::SomeMmio { Ok(f.call(SomeTransport::from(t))) } else { Ok(f.call(t)) }
        }
        TKind::Pci | TKind::SomePci => {
            let t = crate::pcidev::make_pci_transport(dt, clen)?;
            if tk == TKind::SomePci { Ok(f.call(SomeTransport::from(t))) } else { Ok(f.call(t)) }
        }
    }
}

#[derive(Copy, Clone, Debug, PartialEq, Eq)]
pub enum Kind {
    Blk,
    Console,
    Gpu,
    Input,
    NetRaw,
    Net,
    Rng,
    Rtc,
    Socket,
    Sound,
    P9,
}

pub const KINDS: [Kind; 11] = [Kind::Blk, Kind::Console, Kind::Gpu, Kind::Input, Kind::NetRaw, Kind::Net, Kind::Rng, Kind::Rtc, Kind::Socket, Kind::Sound, Kind::P9];

impl Kind {
    pub fn device_id(self) -> u32 {
        match self {
            Kind::NetRaw | Kind::Net => 1,
            Kind::Blk => 2,
            Kind::Console => 3,
            Kind::Rng => 4,
            Kind::P9 => 9,
            Kind::Gpu => 16,
            Kind::Rtc => 17,
            Kind::Input => 18,
            Kind::Socket => 19,
            Kind::Sound => 25,
        }
    }
    pub fn n_queues(self) -> usize {
        match self {
            Kind::Blk | Kind::Rng | Kind::P9 | Kind::Rtc => 1,
            Kind::Console | Kind::Gpu | Kind::Input | Kind::NetRaw | Kind::Net => 2,
            Kind::Socket => 3,
            Kind::Sound => 4,
        }
    }
    /// Device-specific feature bits whose semantics the crate implements (may be accepted).
    pub fn implemented_device_bits(self) -> u64 {
        match self {
            Kind::Blk => (1 << 5) | (1 << 9),
            Kind::Console => (1 << 0) | (1 << 2),
            Kind::Gpu => 1 << 1,
            Kind::NetRaw | Kind::Net => (1 << 5) | (1 << 16),
            Kind::P9 => 1 << 0,
            _ => 0,
        }
    }
    /// A well-formed default configuration space.
    pub fn default_config(self) -> Vec<u8> {
        match self {
            Kind::Blk => {
                let mut c = vec![0u8; 60];
                c[0..8].copy_from_slice(&0x0000_0001_0000_0800u64.to_le_bytes());
                c
            }
            Kind::Console => {
                let mut c = vec![0u8; 12];
                c[0..2].copy_from_slice(&80u16.to_le_bytes());
                c[2..4].copy_from_slice(&25u16.to_le_bytes());
                c[4..8].copy_from_slice(&1u32.to_le_bytes());
                c
            }
            Kind::Gpu => {
                let mut c = vec![0u8; 16];
                c[8..12].copy_from_slice(&1u32.to_le_bytes());
                c
            }
            Kind::Input => vec![0u8; 136],
            Kind::NetRaw | Kind::Net => {
                let mut c = vec![0u8; 12];
                c[0..6].copy_from_slice(&[0x52, 0x54, 0x00, 0x12, 0x34, 0x56]);
                c[6..8].copy_from_slice(&1u16.to_le_bytes());
                c
            }
            Kind::Rng | Kind::Rtc => vec![],
            Kind::Socket => {
                let mut c = vec![0u8; 8];
                c[0..8].copy_from_slice(&0x0000_0003_0000_0042u64.to_le_bytes());
                c
            }
            Kind::Sound => {
                let mut c = vec![0u8; 12];
                c[0..4].copy_from_slice(&2u32.to_le_bytes());
                c[4..8].copy_from_slice(&2u32.to_le_bytes());
                c[8..12].copy_from_slice(&1u32.to_le_bytes());
                c
            }
            Kind::P9 => {
                let tag = b"vdsim9p";
                let mut c = vec![0u8; 2 + tag.len()];
                c[0..2].copy_from_slice(&(tag.len() as u16).to_le_bytes());
                c[2..].copy_from_slice(tag);
                c
            }
        }
    }
}

/// Puts device identity, queues, features and configuration of `kind` into the world.
pub fn setup_device(kind: Kind, features: u64, config: Vec<u8>) {
    with(|w| {
        w.tr.device_type = kind.device_id();
        w.tr.device_features = features;
        w.tr.has_config = !matches!(kind, Kind::Rng | Kind::Rtc);
        w.tr.config = config;
        w.tr.queues.clear();
        w.dq.clear();
        w.ensure_queues(kind.n_queues(), 256);
    });
}

pub const NET_QS: usize = 8;
pub const NET_BUF: usize = 2048;
pub const SOCK_RX: usize = 512;

pub type Blk<T> = virtio_drivers::device::blk::VirtIOBlk<SimHal, T>;
pub type Console<T> = virtio_drivers::device::console::VirtIOConsole<SimHal, T>;
pub type Gpu<T> = virtio_drivers::device::gpu::VirtIOGpu<SimHal, T>;
pub type Input<T> = virtio_drivers::device::input::VirtIOInput<SimHal, T>;
pub type NetRaw<T> = virtio_drivers::device::net::VirtIONetRaw<SimHal, T, NET_QS>;
pub type Net<T> = virtio_drivers::device::net::VirtIONet<SimHal, T, NET_QS>;
pub type Rng<T> = virtio_drivers::device::rng::VirtIORng<SimHal, T>;
pub type Rtc<T> = virtio_drivers::device::rtc::VirtIORtc<SimHal, T>;
pub type Socket<T> = virtio_drivers::device::socket::VirtIOSocket<SimHal, T, SOCK_RX>;
pub type Sound<T> = virtio_drivers::device::sound::VirtIOSound<SimHal, T>;
pub type P9<T> = virtio_drivers::device::virtio_9p::VirtIO9p<SimHal, T>;

/// Any constructed driver (for scenarios that only construct, lightly use and drop).
pub enum AnyDriver<T: Transport> {
    Blk(Blk<T>),
    Console(Console<T>),
    Gpu(Gpu<T>),
    Input(Input<T>),
    NetRaw(NetRaw<T>),
    Net(Net<T>),
    Rng(Rng<T>),
    Rtc(Rtc<T>),
    Socket(Socket<T>),
    Sound(Box<Sound<T>>),
    P9(P9<T>),
}

pub fn construct<T: Transport>(kind: Kind, t: T) -> Result<AnyDriver<T>> {
    Ok(match kind {
        Kind::Blk => AnyDriver::Blk(Blk::new(t)?),
        Kind::Console => AnyDriver::Console(Console::new(t)?),
        Kind::Gpu => AnyDriver::Gpu(Gpu::new(t)?),
        Kind::Input => AnyDriver::Input(Input::new(t)?),
        Kind::NetRaw => AnyDriver::NetRaw(NetRaw::new(t)?),
        Kind::Net => AnyDriver::Net(Net::new(t, NET_BUF)?),
        Kind::Rng => AnyDriver::Rng(Rng::new(t)?),
        Kind::Rtc => AnyDriver::Rtc(Rtc::new(t)?),
        Kind::Socket => AnyDriver::Socket(Socket::new(t)?),
        Kind::Sound => AnyDriver::Sound(Box::new(Sound::new(t)?)),
        Kind::P9 => AnyDriver::P9(P9::new(t)?),
    })
}

#[allow(dead_code)]
pub fn _err(e: Error) -> String {
    format!("{e:?}")
}

/// Installs the reference device personality for `kind`.
pub fn install_personality(kind: Kind) {
    use crate::devices::*;
    with(|w| {
        let guest = u64::from_le_bytes(w.tr.config.get(0..8).and_then(|b| b.try_into().ok()).unwrap_or([0; 8]));
        w.dev = Some(match kind {
            Kind::Blk => Box::new(blk::BlkDev::new()) as Box<dyn Personality>,
            Kind::Console => Box::new(console::ConsoleDev::new()),
            Kind::Gpu => Box::new(gpu::GpuDev::new()),
            Kind::Input => {
                let mut d = events::EventSource::new(0);
                d.payload = Some(crate::scen::c19::input_event);
                Box::new(d)
            }
            Kind::NetRaw | Kind::Net => Box::new(net::NetDev::new()),
            Kind::Rng => Box::new(simple::RngDev::new()),
            Kind::Rtc => {
                let mut d = simple::RtcDev::new();
                d.clocks.push(simple::RtcClock { type_: 0, smear: 0, flags: 0, reading: 42 });
                Box::new(d)
            }
            Kind::Socket => Box::new(vsock::VsockDev::new(guest)),
            Kind::Sound => Box::new(sound::SoundDev::new()),
            Kind::P9 => Box::new(simple::P9Dev::new()),
        });
    });
}

/// A short usage script touching the feature-gated paths and at least one multi-buffer request;
/// returns the first error of a call that must succeed against an honest device.
pub fn light_use<T: Transport>(d: &mut AnyDriver<T>, heavy: bool) -> Result<()> {
    use virtio_drivers::device::socket::{ConnectionInfo, VsockAddr};
    match d {
        AnyDriver::Blk(b) => {
            let mut buf = [0u8; 512];
            b.read_blocks(3, &mut buf)?;
            b.flush()?;
            if !b.readonly() {
                b.write_blocks(4, &buf)?;
            }
        }
        AnyDriver::Console(c) => {
            c.send(b'x')?;
            c.send_bytes(b"hello")?;
            let _ = c.size()?;
            let _ = c.emergency_write(b'!');
            let _ = c.recv(true)?;
        }
        AnyDriver::Gpu(g) => {
            let (rw, rh) = g.resolution()?;
            let heavy = heavy && rw != 0 && rh != 0;
            g.move_cursor(1, 2)?;
            match g.get_edid(0) {
                Ok(_) | Err(Error::Unsupported) => {}
                Err(e) => return Err(e),
            }
            if heavy {
                g.setup_framebuffer()?;
                g.flush()?;
                let img = vec![7u8; 64 * 64 * 4];
                g.setup_cursor(&img, 1, 2, 3, 4)?;
                g.move_cursor(5, 6)?;
                g.change_resolution(16, 16)?;
            }
        }
        AnyDriver::Input(i) => {
            with(|w| {
                w.personality::<crate::devices::events::EventSource>().budget += 3;
                w.run_device(8);
            });
            let _ = i.pop_pending_event();
            let _ = i.pop_pending_event();
        }
        AnyDriver::NetRaw(n) => {
            n.send(&[0x55u8; 60])?;
            n.send(&[])?;
            if heavy {
                let mut rx = vec![0u8; 1600];
                // SAFETY: `rx` outlives the request (completed or abandoned before drop below).
                let tok = unsafe { n.receive_begin(&mut rx)? };
                with(|w| {
                    w.personality::<crate::devices::net::NetDev>().inbound.push_back(vec![1, 2, 3]);
                    w.drain_device();
                });
                // SAFETY: same buffer.
                unsafe { n.receive_complete(tok, &mut rx)? };
            }
        }
        AnyDriver::Net(n) => {
            let mut t = n.new_tx_buffer(64);
            t.packet_mut()[0] = 9;
            n.send(t)?;
            n.send(n.new_tx_buffer(0))?;
        }
        AnyDriver::Rng(r) => {
            let mut b = [0u8; 16];
            r.request_entropy(&mut b)?;
        }
        AnyDriver::Rtc(r) => {
            let _ = r.num_clocks()?;
            let _ = r.read(0)?;
        }
        AnyDriver::Socket(s) => {
            let mut ci = ConnectionInfo::new(VsockAddr { cid: 2, port: 9 }, 1234);
            ci.buf_alloc = 64;
            s.connect(&ci)?;
            // a packet with a payload: header and body are two buffers of one transmit chain;
            // the peer's RESPONSE carries the credit that permits it
            let guest = s.guest_cid();
            with(|w| {
                let p = crate::devices::vsock::Pkt { src_cid: 2, dst_cid: guest, src_port: 9, dst_port: 1234, len: 0, type_: 1, op: 2, flags: 0, buf_alloc: 4096, fwd_cnt: 0, payload: vec![], payload_len: 0 };
                w.personality::<crate::devices::vsock::VsockDev>().outbound.push_back(p.encode());
                w.drain_device();
            });
            let got = s.poll(|event, _| {
                ci.update_for_event(&event);
                Ok(Some(event))
            })?;
            if got.is_none() {
                // the device has not delivered the RESPONSE yet (no credit: nothing to send)
                return s.force_close(&ci);
            }
            s.send(&[1, 2, 3, 4, 5], &mut ci)?;
            s.force_close(&ci)?;
        }
        AnyDriver::Sound(s) => {
            let _ = s.output_streams()?;
            if heavy {
                use virtio_drivers::device::sound::{PcmFeatures, PcmFormat, PcmRate};
                s.pcm_set_params(0, 64, 16, PcmFeatures::empty(), 1, PcmFormat::U8, PcmRate::Rate8000)?;
                s.pcm_prepare(0)?;
                s.pcm_start(0)?;
                s.pcm_xfer(0, &[3u8; 100])?;
                s.pcm_stop(0)?;
            }
        }
        AnyDriver::P9(p) => {
            let mut resp = [0u8; 64];
            let _ = p.request(&[1, 2, 3, 4, 5, 6, 7, 8], &mut resp)?;
        }
    }
    Ok(())
}

impl Kind {
    /// Queues on which the driver only issues blocking request/response exchanges (so that at an
    /// operation boundary every completion has been consumed).
    pub fn request_queues(self) -> &'static [u16] {
        match self {
            Kind::Blk | Kind::Rng | Kind::Rtc | Kind::P9 => &[0],
            Kind::Console | Kind::NetRaw | Kind::Net | Kind::Socket => &[1],
            Kind::Gpu => &[0, 1],
            Kind::Sound => &[0, 2],
            Kind::Input => &[],
        }
    }
}

pub fn kind_name(k: Kind) -> &'static str {
    match k {
        Kind::Blk => "blk",
        Kind::Console => "console",
        Kind::Gpu => "gpu",
        Kind::Input => "input",
        Kind::NetRaw => "net-raw",
        Kind::Net => "net",
        Kind::Rng => "rng",
        Kind::Rtc => "rtc",
        Kind::Socket => "socket",
        Kind::Sound => "sound",
        Kind::P9 => "9p",
    }
}
