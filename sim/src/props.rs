//! Registry: property id -> batches (scenario functions), rule text, component lists.

use crate::runner::{Batch, Extra, Spec};
use crate::scen;

const REAL_QUEUE: &[&str] = &[
    "virtio_drivers::queue::VirtQueue (add, add_direct, add_indirect, pop_used, recycle_descriptors, should_notify, set_dev_notify, add_notify_wait_pop, layout allocation)",
    "virtio_drivers::hal::Dma",
];
const STUB_COMMON: &[&str] = &[
    "device: reference split-virtqueue device core + PatternDevice personality (harness)",
    "platform: SimHal (bouncing share/unshare, DMA ledger) (harness)",
    "transport: ModelTransport (direct impl Transport) (harness)",
    "hardware memory model: sequentially consistent at store-hook granularity",
];

/// Run counts below are in units tuned on this machine: quick x10 keeps every quick check well
/// under a minute on 16 cores, thorough x10 takes a few minutes per property.
const QUICK_X: u64 = 10;
const THOROUGH_X: u64 = 10;

fn b(name: &'static str, f: fn(), quick: u64, thorough: u64) -> Batch {
    Batch { name, f, quick: quick * QUICK_X, thorough: thorough * THOROUGH_X, heavy: false, grid: 0, classes: &[] }
}
fn grid(name: &'static str, f: fn(), cells: u64, quick_rounds: u64, thorough_rounds: u64) -> Batch {
    Batch { name, f, quick: cells * quick_rounds * 3, thorough: cells * thorough_rounds * 3, heavy: false, grid: cells, classes: &[] }
}
impl Batch {
    /// Borrowed scenario: only these classes are judged (see `runner::Batch::classes`).
    fn only(mut self, classes: &'static [&'static str]) -> Batch {
        self.classes = classes;
        self
    }
}

/// Chain formation and descriptor ownership as the device-side observer sees them (C01).
const CHAIN_CLASSES: &[&str] = &["chain-malformed", "descriptor-shared", "ring-slot-reused", "avail-idx-jump", "inflight-descriptor-modified", "inflight-ring-slot-modified", "device-fetch"];
/// Platform sharing ledger (C04).
const SHARE_CLASSES: &[&str] = &["unshare-mismatch", "unshare-while-posted", "share-empty", "share-direction-both", "share-leaked", "device-mem-fault"];
/// Register/configuration accesses that leave the region or window the device declared (C07:
/// device-reported configuration values must not lead to an invalid memory access).
const WILD_ACCESS_CLASSES: &[&str] = &["config-access-out-of-window", "config-access-outside-window", "config-access-elsewhere", "pci-access-outside-requested-window", "pci-access-outside-structures", "mmio-out-of-region", "mmio-wild-access"];
/// Memory the device may still use is released or handed out (C07, C09).
const RELEASE_CLASSES: &[&str] = &["posted-buffer-freed", "live-queue-memory-freed", "pinned-dma-freed", "dma-dealloc-mismatch", "unshare-mismatch", "unshare-while-posted", "device-mem-fault", "slice-exceeds-buffer"];
/// Notification suppression in both directions (C05).
const NOTIFY_CLASSES: &[&str] = &["lost-notification", "interrupt-not-armed", "used-event-not-rearmed", "event-idx-not-negotiated", "wait-never-ends"];

fn heavy(name: &'static str, f: fn(), quick: u64, thorough: u64) -> Batch {
    Batch { name, f, quick: quick * 3, thorough: thorough * 3, heavy: true, grid: 0, classes: &[] }
}
/// Multi-GiB runs: counts are taken literally.
fn heavy1(name: &'static str, f: fn(), quick: u64, thorough: u64) -> Batch {
    Batch { name, f, quick, thorough, heavy: true, grid: 0, classes: &[] }
}

pub fn spec(id: &str) -> Option<Spec> {
    let s = match id {
        "C01" => Spec {
            id: "C01",
            level: "exploration",
            rule: "seeded histories of add/complete/pop on VirtQueue (size, indirect, event-idx, access-platform, legacy layout, device policy drawn per run); distinct = distinct event-log hash; non-trivial = at least 2 chains outstanding at a publication after more than SIZE submissions (descriptors recycled, free list permuted) or a completion consumed out of submission order; batch `drivers` borrows the C08 driver x transport x feature grid and judges only chain/descriptor-ownership classes",
            batches: vec![
                b("history", scen::queue::history, 6000, 30_000),
                b("history_heapfail", scen::queue::history_heapfail, 2000, 15_000),
                heavy("wrap", scen::queue::wrap_history, 16, 96),
                grid("drivers", scen::c08::run, scen::c08::GRID, 15, 600).only(CHAIN_CLASSES),
            ],
            extras: vec![],
            assumptions: vec!["device observes memory only at store-hook granularity (sequentially consistent)", "sampling of histories, not enumeration"],
            real: REAL_QUEUE.to_vec(),
            stubbed: STUB_COMMON.to_vec(),
        },
        "C02" => Spec {
            id: "C02",
            level: "exploration",
            rule: "same histories as C01; the observer validates, at every store hook, every entry below the available index read from device-visible memory; non-trivial as C01",
            batches: vec![
                b("history", scen::queue::history, 6000, 30_000),
                b("history_heapfail", scen::queue::history_heapfail, 2000, 15_000),
                b("blocking", scen::queue::blocking_history, 2000, 40_000),
                heavy("wrap", scen::queue::wrap_history, 8, 64),
            ],
            extras: vec![],
            assumptions: vec!["native engine is sequentially consistent at store granularity; release/fence semantics are covered by the Miri engine (check script)", "non-coherent DMA is not modelled"],
            real: REAL_QUEUE.to_vec(),
            stubbed: STUB_COMMON.to_vec(),
        },
        "C03" => Spec {
            id: "C03",
            level: "exploration",
            rule: "same histories; reference model (outstanding map, used FIFO, free count) checked after every operation; wrap batch runs > 65536 submissions; non-trivial as C01",
            batches: vec![
                b("history", scen::queue::history, 6000, 30_000),
                b("history_faulty", scen::queue::history_faulty, 3000, 20_000),
                b("history_heapfail", scen::queue::history_heapfail, 2000, 15_000),
                b("blocking", scen::queue::blocking_history, 3000, 60_000),
                heavy("wrap", scen::queue::wrap_history, 32, 256),
            ],
            extras: vec![],
            assumptions: vec!["sampling of histories, not enumeration"],
            real: REAL_QUEUE.to_vec(),
            stubbed: STUB_COMMON.to_vec(),
        },
        "C04" => Spec {
            id: "C04",
            level: "exploration",
            rule: "same histories; SimHal ledger invariants online (share once / unshare once, exact arguments, device address returned by share, no share on refusal, device accesses only live shares/DMA in permitted direction, data appears at consumption); non-trivial as C01; batches `drivers_blk/sound/gpu` borrow the C14/C20 driver scenarios and judge only sharing-ledger classes plus share-leaked (no request buffer still shared after every blocking request completed and the driver was dropped)",
            batches: vec![
                b("history", scen::queue::history, 6000, 30_000),
                b("history_faulty", scen::queue::history_faulty, 3000, 20_000),
                b("history_heapfail", scen::queue::history_heapfail, 2000, 15_000),
                b("blocking", scen::queue::blocking_history, 2000, 40_000),
                heavy("wrap", scen::queue::wrap_history, 8, 64),
                b("drivers_blk", scen::c14::honest, 1500, 60_000).only(SHARE_CLASSES),
                b("drivers_sound", scen::c20::sound_run, 1500, 60_000).only(SHARE_CLASSES),
                b("drivers_gpu", scen::c20::gpu_run, 1000, 40_000).only(SHARE_CLASSES),
                b("drivers_net", scen::c16::raw_run, 1500, 60_000).only(SHARE_CLASSES),
            ],
            extras: vec![],
            assumptions: vec!["platform layer always bounces (device address never equals virtual address)"],
            real: REAL_QUEUE.to_vec(),
            stubbed: STUB_COMMON.to_vec(),
        },
        "C05" => Spec {
            id: "C05",
            level: "exploration",
            rule: "histories with should_notify compared against vring_need_event / used.flags after batches of submissions, avail.flags / used_event checked from the device side, blocking helper under every device policy with busy-wait supervision; non-trivial = a blocking wait that actually spun, or a history that is non-trivial per C01; batch `drivers` borrows the C08 driver grid and judges only notification classes (used_event re-armed on request queues, lost wake-up at call boundaries)",
            batches: vec![
                b("history", scen::queue::history, 4000, 30_000),
                b("blocking", scen::queue::blocking_history, 4000, 80_000),
                b("owning", scen::c19::owning_honest, 3000, 60_000),
                heavy("wrap", scen::queue::wrap_history, 48, 512),
                grid("drivers", scen::c08::run, scen::c08::GRID, 15, 600).only(NOTIFY_CLASSES),
                // blocking helpers of the drivers on their error paths: playback with periods the
                // device fails, block requests with error statuses - every queued request must
                // still have been announced to the device
                b("sound_errors", scen::c20::sound_faulty, 2000, 60_000).only(NOTIFY_CLASSES),
                b("blk_errors", scen::c14::faulty, 2000, 60_000).only(NOTIFY_CLASSES),
            ],
            extras: vec![Extra { name: "should_notify_sweep", f: scen::queue::notify_sweep }],
            assumptions: vec!["liveness bound: 4 idle device opportunities", "interrupts are not delivered asynchronously (library installs no handlers)"],
            real: REAL_QUEUE.to_vec(),
            stubbed: STUB_COMMON.to_vec(),
        },
        "C06" => Spec {
            id: "C06",
            level: "exploration",
            rule: "grid of 16 queue sizes x {modern, legacy} x 8 flag combinations x 5 transport answers (free, in use, max=SIZE, max=SIZE/2, max=0) = 1280 cells, each cell visited in every round (run i -> cell i mod 1280; exhaustive for the grid), seed varies DMA placement, queue index and second-allocation failure; distinct = distinct event-log hash; non-trivial = creation succeeded (full layout oracle ran) or failed at the second allocation",
            batches: vec![
                grid("grid", scen::c06::grid_run, scen::c06::GRID, 3, 200),
                b("real_transports", scen::c06::real_transports, 3000, 60_000),
                b("queue_lifecycle", scen::queue::history, 1500, 15_000).only(&["dma-leak", "dma-dealloc-mismatch", "live-queue-memory-freed"]),
            ],
            extras: vec![],
            assumptions: vec!["real MMIO/PCI transports are covered by C10/C11 scenarios; here the transport is the model transport"],
            real: vec!["virtio_drivers::queue::VirtQueue::new, VirtQueueLayout::allocate_legacy/allocate_flexible, queue_part_sizes, Dma::new/Drop"],
            stubbed: STUB_COMMON.to_vec(),
        },
        "C10" => Spec {
            id: "C10",
            level: "exploration",
            rule: "random operation sequences (every Transport method, random queue index / size / 64-bit address triple / feature word / status / interrupt status) on the real MmioTransport and SomeTransport::Mmio over a register-level reference device, legacy and modern, with QueueReady clearing up to 3 reads late; random header words and region sizes at probe time; distinct = distinct event-log hash; non-trivial = at least one queue_set executed (ops batch) or an acceptable header (probe batch)",
            batches: vec![
                b("ops", scen::c10::ops_run, 20_000, 1_500_000),
                b("probe", scen::c10::probe_run, 20_000, 1_500_000),
                b("config_bounds", scen::c13::bounds, 5000, 300_000).only(&["mmio-out-of-region", "mmio-wild-access", "mmio-access-width", "mmio-reserved-register", "config-access-out-of-window", "config-access-elsewhere", "config-access-on-failure"]),
            ],
            extras: vec![],
            assumptions: vec!["register semantics transcribed from VirtIO 1.2 section 4.2.2 / 4.2.4 (DESIGN appendix A)", "DRIVER_OK is never set in this scenario; queue addresses are arbitrary numbers"],
            real: vec!["virtio_drivers::transport::mmio::MmioTransport (all Transport methods, new, Drop)", "virtio_drivers::transport::SomeTransport (Mmio variant)", "safe-mmio field!/read/write paths (through the custom-mmio seam)"],
            stubbed: vec!["device: register-level virtio-mmio reference device (sim/src/mmio.rs)", "no virtqueue traffic in this scenario"],
        },
        "C14" => Spec {
            id: "C14",
            level: "exploration",
            rule: "seeded histories on VirtIOBlk (blocking read/write/flush/device_id with nothing outstanding; non-blocking reads/writes with several outstanding, completed in the order the device chose) over model / MMIO legacy+modern / PCI transports, sectors over the full u64 range, features drawn per run; honest and error-status batches separate; non-trivial = at least two non-blocking requests outstanding together; batch `capacity_cfg`: capacity read while the device switches configuration versions during construction (must equal one exposed version)",
            batches: vec![b("honest", scen::c14::honest, 6000, 500_000), b("faulty", scen::c14::faulty, 4000, 300_000), b("capacity_cfg", scen::c13::torn_blk, 2000, 100_000)],
            extras: vec![],
            assumptions: vec!["blocking calls are only issued with nothing else outstanding (documented precondition of add_notify_wait_pop)"],
            real: vec!["virtio_drivers::device::blk::VirtIOBlk", "VirtQueue, Transport::begin_init/finish_init/read_consistent", "MmioTransport / PciTransport (when drawn)"],
            stubbed: vec!["device: reference block device (sim/src/devices/blk.rs) on the reference virtqueue core", "platform: SimHal"],
        },
        "C19" => Spec {
            id: "C19",
            level: "exploration",
            rule: "OwningQueue (6 SIZE x BUFFER_SIZE shapes, handler succeeding / declining / failing), VirtIOInput::pop_pending_event and VirtIOSound::latest_notification against an event-source device that completes posted buffers in scheduler-chosen order, in bursts, with written lengths 0..BUFFER_SIZE; non-trivial = more events than the queue size were delivered and the stock level returned to the queue size",
            batches: vec![
                b("owning", scen::c19::owning_honest, 6000, 400_000),
                b("owning_lying", scen::c19::owning_lying, 2000, 150_000),
                b("input", scen::c19::input_run, 3000, 250_000),
                b("input_long", scen::c19::input_long, 150, 3_000),
                b("sound_events", scen::c19::sound_run, 2000, 150_000),
            ],
            extras: vec![],
            assumptions: vec!["VirtIOSocket's receive path is exercised by the C17/C18 scenarios"],
            real: vec!["virtio_drivers::queue::OwningQueue", "VirtIOInput::new/pop_pending_event", "VirtIOSound::new/latest_notification", "VirtQueue"],
            stubbed: vec!["device: event-source personality (sim/src/devices/events.rs)", "platform: SimHal", "transport: model / real MMIO / real PCI"],
        },
        "C15" => Spec {
            id: "C15",
            level: "exploration",
            rule: "seeded interleavings of device input chunks (1..4096 bytes), recv(peek), recv(pop), read, fill_buf+consume, read_ready, ack_interrupt, send/send_bytes/write/write_str, size/emergency_write on VirtIOConsole over model/MMIO/PCI transports; the device fills the posted buffer at scheduler-chosen moments (between calls, inside notify, at store and spin points); non-trivial = at least one blocking read returned data",
            batches: vec![b("stream", scen::c15::run, 8000, 500_000)],
            extras: vec![],
            assumptions: vec!["blocking reads are only issued while the device still has bytes to deliver or the driver holds unread bytes", "read_ready/recv polling alone never re-posts a drained buffer: recorded as an observation, not part of the statement"],
            real: vec!["virtio_drivers::device::console::VirtIOConsole incl. embedded-io Read/BufRead/ReadReady/Write and fmt::Write", "VirtQueue"],
            stubbed: vec!["device: reference console (sim/src/devices/console.rs)", "platform: SimHal"],
        },
        "C16" => Spec {
            id: "C16",
            level: "exploration",
            rule: "seeded sequences of sends, receives and recycles on VirtIONetRaw (caller-owned buffers, non-blocking transmit/receive in any completion order) and VirtIONet (QUEUE_SIZE 8 managed buffers), frames of every length from 0 to the buffer size (boundary biased), device picks any posted buffer and burst size, with and without VERSION_1 (12- vs 10-byte header); non-trivial = a receive completed out of posting order (raw) or more than QUEUE_SIZE frames received and all buffers back with the device (managed)",
            batches: vec![b("raw", scen::c16::raw_run, 6000, 400_000), b("managed", scen::c16::buf_run, 6000, 400_000)],
            extras: vec![],
            assumptions: vec!["MRG_RXBUF is offered in some runs but never accepted by the driver, so one buffer per frame"],
            real: vec!["virtio_drivers::device::net::{VirtIONetRaw, VirtIONet, RxBuffer, TxBuffer}", "VirtQueue"],
            stubbed: vec!["device: reference NIC (sim/src/devices/net.rs)", "platform: SimHal"],
        },
        "C20" => Spec {
            id: "C20",
            level: "exploration",
            rule: "seeded operation sequences with arbitrary parameters on VirtIOGpu (resolution, framebuffer setup/teardown, flush, cursor, EDID with random 1024-byte blobs), VirtIOSound (info, set_params, prepare/start/stop/release, jack remap, blocking and non-blocking playback with completions in order within a stream), VirtIORng, VirtIORtc and VirtIO9p over model/MMIO/PCI transports; success batches and error-response batches are separate; non-trivial per batch: a framebuffer was set up / playback longer than the queue / entropy returned / a capability decoded / a 9P response returned; batch `9p_tag_cfg`: mount tag read while the device switches configuration versions during construction",
            batches: vec![
                b("gpu", scen::c20::gpu_run, 4000, 250_000),
                b("gpu_faulty", scen::c20::gpu_faulty, 3000, 200_000),
                b("sound", scen::c20::sound_run, 4000, 250_000),
                b("sound_faulty", scen::c20::sound_faulty, 3000, 200_000),
                b("rng", scen::c20::rng_run, 2000, 150_000),
                b("rtc", scen::c20::rtc_run, 2000, 150_000),
                b("rtc_faulty", scen::c20::rtc_faulty, 2000, 150_000),
                b("9p", scen::c20::p9_run, 2000, 150_000),
                b("9p_faulty", scen::c20::p9_faulty, 2000, 150_000),
                b("9p_tag_cfg", scen::c13::torn_9p, 2000, 100_000),
            ],
            extras: vec![],
            assumptions: vec!["resolutions bounded (<= 128x128) so that width*height*4 stays far below 2^32 and allocations stay small", "after a device error the run ends (driver state after an error is outside the statement)", "EDID decoding is a pure function; it is covered here only as part of device responses"],
            real: vec!["virtio_drivers::device::gpu::{VirtIOGpu, Edid}", "virtio_drivers::device::sound::VirtIOSound", "virtio_drivers::device::rng::VirtIORng", "virtio_drivers::device::rtc::VirtIORtc", "virtio_drivers::device::virtio_9p::VirtIO9p", "VirtQueue / OwningQueue"],
            stubbed: vec!["devices: reference GPU, sound, entropy, RTC, 9P (sim/src/devices/{gpu,sound,simple}.rs)", "platform: SimHal"],
        },
        "C17" => Spec {
            id: "C17",
            level: "exploration",
            rule: "seeded interleavings of local sends/receives/credit updates and peer packets on VsockConnectionManager (4 peers x 4 local ports, per-connection capacity 1..64 KiB) in lock step with a reference model of both credit windows; honest-peer batches (peers never exceed the advertised credit), a fault batch (peers exceed credit, shrink their window, send malformed packets), and two long-stream batches that push more than 4 GiB through one connection in each direction so the 32-bit counters wrap; non-trivial = at least two connections exist and more than twice the capacity was read (history) / a counter wrapped (wrap batches)",
            batches: vec![
                b("honest", scen::c17::honest, 6000, 150_000),
                b("garbage", scen::c17::garbage, 3000, 80_000),
                b("dishonest", scen::c17::dishonest, 3000, 80_000),
                heavy1("wrap_tx", scen::c17::wrap_tx, 4, 48),
                heavy1("wrap_rx", scen::c17::wrap_rx, 4, 48),
            ],
            extras: vec![],
            assumptions: vec!["capacity 0 is excluded as meaningless", "wrap batches verify payloads by sampling 64 positions per packet (bulk mode)"],
            real: vec!["virtio_drivers::device::socket::{VsockConnectionManager, VirtIOSocket, ConnectionInfo}", "OwningQueue, VirtQueue"],
            stubbed: vec!["device + peers: reference vsock device (sim/src/devices/vsock.rs) and peer/credit model (sim/src/scen/c17.rs)", "platform: SimHal"],
        },
        "C18" => Spec {
            id: "C18",
            level: "exploration",
            rule: "same histories as C17 (listen, unlisten, connect, send, recv, shutdown, force_close, update_credit, poll; peer request, response, reset, shutdown, data, credit update/request, op 0, unknown ops, wrong CID, unknown connection, non-empty control packets, truncated data) with the connection-table reference model compared after every operation for all 16 (peer, port) pairs; non-trivial as C17 history",
            batches: vec![b("honest", scen::c17::honest, 6000, 150_000), b("garbage", scen::c17::garbage, 6000, 150_000), b("dishonest", scen::c17::dishonest, 2000, 50_000)],
            extras: vec![],
            assumptions: vec!["the model mirrors the statement: requests to non-listening ports are reset and not reported; packets for unknown connections change nothing"],
            real: vec!["virtio_drivers::device::socket::{VsockConnectionManager, VirtIOSocket}", "OwningQueue, VirtQueue"],
            stubbed: vec!["device + peers: reference vsock device and connection-table model", "platform: SimHal"],
        },
        "C08" => Spec {
            id: "C08",
            level: "exploration",
            rule: "grid of 11 drivers x 8 transport kinds (model, model-legacy, model-PCI-like, real MMIO modern/legacy, SomeTransport::Mmio, real PCI, SomeTransport::Pci) visited in every round; offered feature set drawn per run (0, all ones, single bits, VERSION_1 only, random 64-bit, random biased to bits 0-40); ordered seam log of construction checked, then a usage script judged by the reference device for the negotiated features; non-trivial = construction and usage succeeded",
            batches: vec![
                grid("handshake", scen::c08::run, scen::c08::GRID, 60, 6000),
                // error paths: every driver against a device that fails its requests, judged here
                // only for mechanisms used without having been negotiated
                b("failing_device", scen::c07::hostile_drivers, 6000, 200_000).only(&["config-field-not-negotiated"]),
            ],
            extras: vec![],
            assumptions: vec!["HypPciTransport (x86-64 hypercalls) cannot run in user space and is excluded", "legacy transports never offer VERSION_1"],
            real: vec!["every driver's new(), Transport::begin_init/finish_init", "MmioTransport, PciTransport, SomeTransport", "VirtQueue"],
            stubbed: vec!["devices: reference personalities per driver", "platform: SimHal"],
        },
        "C09" => Spec {
            id: "C09",
            level: "fault_enumeration",
            rule: "fault enumeration: grid of 11 drivers x 8 transport kinds x k = 1..14 where the k-th DMA allocation of construction + usage script (incl. GPU framebuffer and cursor setup) fails, every cell visited in every round (k beyond the number of allocations = fault-free run); plus seeded drop-at-a-random-point histories with requests outstanding on every transport kind, and construction failing on malformed configuration space; non-trivial = the injected failure was reached and reported (grid) / the history ran and the driver was dropped (drop) / construction failed (bad config)",
            batches: vec![grid("alloc_fail", scen::c09::alloc_fail, scen::c09::GRID, 3, 40), b("drop_anywhere", scen::c09::drop_anywhere, 6000, 75_000), b("bad_config", scen::c09::bad_config, 2000, 50_000), b("sound_errors", scen::c20::sound_faulty, 3000, 100_000).only(RELEASE_CLASSES)],
            extras: vec![],
            assumptions: vec!["a device reset includes the reset every in-tree transport performs in its own Drop", "HypPciTransport excluded", "heap watch covers up to 256 posted buffers at a time"],
            real: vec!["every driver's new() and Drop, Dma::new/Drop, VirtQueue::new, OwningQueue::new/Drop", "MmioTransport / PciTransport / SomeTransport Drop (device reset)"],
            stubbed: vec!["devices: reference personalities per driver", "platform: SimHal with failure injection and release monitors", "process heap: global allocator wrapper (sim/src/heapwatch.rs)"],
        },
        "C13" => Spec {
            id: "C13",
            level: "exploration",
            rule: "bounds: real MmioTransport / PciTransport / SomeTransport, window sizes 0..256 bytes (PCI: capability present or absent), access types of 1, 2, 3, 4, 6, 8, 16 bytes, offsets boundary-biased up to usize::MAX (window-size, window-size+align, usize::MAX-k, powers of two), reads and writes; expected outcome computed in u128; torn reads: a configuration agent may install the next of up to 4 self-identifying configuration versions (and bump the generation) at every configuration access while blk capacity, vsock CID, console size, MAC and 9P mount tag are read over model / modern MMIO / PCI transports; non-trivial = an in-window access succeeded (bounds) / the configuration changed at least once during the read (torn)",
            batches: vec![b("bounds", scen::c13::bounds, 10_000, 1_500_000), b("torn", scen::c13::torn, 10_000, 1_500_000)],
            extras: vec![],
            assumptions: vec!["legacy MMIO has no configuration generation: torn-read freedom is not claimed there", "the PCI transport rounds the window down to whole 32-bit words: accesses between the rounded and the real end may fail"],
            real: vec!["MmioTransport / PciTransport / SomeTransport read_config_space, write_config_space, read_config_generation", "Transport::read_consistent", "read_config! users: VirtIOBlk::new, VirtIOSocket::new, VirtIOConsole::size, VirtIONetRaw::new, VirtIO9p::new"],
            stubbed: vec!["device: register-level MMIO / PCI reference devices with a scheduler-controlled configuration agent"],
        },
        "C12" => Spec {
            id: "C12",
            level: "exploration",
            rule: "stateful reference PCI function behind ConfigurationAccess (direct) and behind the real MmioCam (CAM and ECAM over the MMIO seam): BAR layouts drawn per run (none / memory 32 / below 1 MiB / memory 64 incl. sizes 2^32..2^63 / I/O / reserved type / 64-bit type in slot 5, prefetchable or not, assigned or not) with every initial command value 0..0x7ff, probed through bars() or per-slot bar_info(); seeded configuration addresses; seeded bus populations; seeded well-formed capability lists; cam_offset swept completely (exhaustive sub-space); non-trivial = a result was compared and matched",
            batches: vec![
                b("bars", scen::c12::bars_run, 20_000, 1_000_000),
                b("addressing", scen::c12::addressing_run, 5000, 500_000),
                b("enumerate", scen::c12::enumerate_run, 3000, 200_000),
                b("capabilities", scen::c12::caps_run, 8000, 600_000),
            ],
            extras: vec![Extra { name: "cam_offset_sweep", f: scen::c12::cam_sweep }],
            assumptions: vec!["cyclic capability lists are outside the statement and are not generated", "BARs with type bits but no writable address bits are not generated (an existing unit test pins the current result, so the intended semantics is ambiguous)"],
            real: vec!["PciRoot::bar_info / bars / get_status_command / set_command / capabilities / enumerate_bus", "MmioCam, Cam::cam_offset", "CapabilityIterator, BusDeviceIterator"],
            stubbed: vec!["device: stateful reference PCI function (sim/src/pcidev.rs)"],
        },
        "C11" => Spec {
            id: "C11",
            level: "exploration",
            rule: "generated PCI functions (vendor/device ids, BARs of every kind with sizes 16 B..2^63, assigned or not; 3-8 capabilities in any order with duplicates, foreign ids, cap_len 8..255, bar index 0..255, offset/length/multiplier boundary-biased over the full 32-bit range; two thirds of the runs start from a well-formed template and perturb it) through PciTransport::new over the direct configuration access and the real MmioCam (CAM, ECAM); independent 128-bit verdict valid/invalid/either; valid functions are then driven through every transport operation with strict register-discipline checking and a late-completing reset on drop; non-trivial = construction succeeded on a function judged valid",
            batches: vec![b("functions", scen::c11::run, 30_000, 2_000_000)],
            extras: vec![],
            assumptions: vec!["a common-configuration window that is 4- but not 8-byte aligned may be accepted or refused (the statement says 'suitably aligned')", "notifications are only issued for queues whose notify address lies inside the notification window"],
            real: vec!["PciTransport::new, get_bar_region, all Transport methods, Drop", "PciRoot::capabilities / bar_info, MmioCam"],
            stubbed: vec!["device: emulated PCI function + virtio-pci structures behind BAR windows (sim/src/pcidev.rs)"],
        },
        "C07" => Spec {
            id: "C07",
            level: "exploration",
            rule: "hostile batches: a device that reports used ids that are not outstanding / repeated / out of range, arbitrary lengths, used-index jumps forwards and backwards, random response bytes and random configuration space, against the bare queue (well-behaved caller), OwningQueue and all 11 drivers over all 8 transport kinds; oracle = no platform-ledger violation (unshare/dealloc without live matching entry or twice), no slice beyond its buffer, no token handed out twice, every call ends in Ok/Err/clean panic; scribbled batches: the ordinary queue/blk/console/net/owning/vsock scenarios with their full functional oracles while the device overwrites the descriptor table and available ring at operation boundaries; non-trivial = a call completed under hostile input (hostile) / as in the base scenario (scribbled)",
            batches: vec![
                b("hostile_queue", scen::c07::hostile_queue, 8000, 500_000),
                b("hostile_owning", scen::c07::hostile_owning, 4000, 300_000),
                b("hostile_drivers", scen::c07::hostile_drivers, 8000, 500_000),
                b("queue_scribbled", scen::c07::queue_scribbled, 4000, 25_000),
                b("blk_scribbled", scen::c07::blk_scribbled, 2000, 50_000),
                b("console_scribbled", scen::c07::console_scribbled, 2000, 50_000),
                b("net_scribbled", scen::c07::net_scribbled, 2000, 50_000),
                b("net_short_len", scen::c16::buf_run_short_len, 3000, 60_000),
                b("owning_scribbled", scen::c07::owning_scribbled, 2000, 50_000),
                b("vsock_scribbled", scen::c07::vsock_scribbled, 2000, 50_000),
                b("sound_errors", scen::c20::sound_faulty, 3000, 100_000).only(RELEASE_CLASSES),
                b("config_bounds", scen::c13::bounds, 3000, 150_000).only(WILD_ACCESS_CLASSES),
                b("pci_functions", scen::c11::run, 5000, 300_000).only(WILD_ACCESS_CLASSES),
            ],
            extras: vec![],
            assumptions: vec![
                "allocation-size fields taken from configuration space (sound jacks/streams/chmaps) are capped at 64: allocation failure aborts instead of unwinding",
                "after a hostile completion the library may return with buffers still shared (leaked); what the device does to them afterwards is not judged",
                "out-of-bounds / use-after-free inside unsafe blocks that does not surface through the ledger is the ASan engine's job (thorough tier)",
            ],
            real: vec!["VirtQueue, OwningQueue, every driver, MmioTransport / PciTransport / SomeTransport"],
            stubbed: vec!["device: hostile personality + hostile/scribbling device core (sim/src/scen/c07.rs, sim/src/vq.rs)", "platform: SimHal ledger (bouncing)"],
        },
        _ => return None,
    };
    Some(s)
}

pub const ALL: &[&str] = &["C01", "C02", "C03", "C04", "C05", "C06", "C07", "C08", "C09", "C10", "C11", "C12", "C13", "C14", "C15", "C16", "C17", "C18", "C19", "C20"];

pub fn find_batch(prop: &str, batch: &str) -> Option<crate::runner::Scn> {
    spec(prop)?.batches.iter().find(|b| b.name == batch).map(|b| b.scn())
}

#[allow(dead_code)]
fn _unused(_: Extra) {}
