//! Emulated PCI function(s): configuration space with generated capability lists and BARs, and
//! the virtio-pci structures (common, notify, ISR, device configuration) served behind the BAR
//! windows of the MMIO seam. Written from the PCI and VirtIO 1.2 text (DESIGN appendix A).

use crate::world::World;

#[derive(Default)]
pub struct PciWorld {}

pub fn cam_access(w: &mut World, off: u64, _width: u8, _write: Option<u64>) -> u64 {
    w.violation("pci-no-device", "cam", format!("configuration access at {off:#x} without a PCI world"));
    0
}

pub fn bar_access(w: &mut World, off: u64, _width: u8, _write: Option<u64>) -> u64 {
    w.violation("pci-no-device", "bar", format!("BAR access at {off:#x} without a PCI world"));
    0
}
