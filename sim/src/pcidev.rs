//! Emulated PCI function(s): configuration space with generated capability lists and BARs, and
//! the virtio-pci structures (common, notify, ISR, device configuration) served behind the BAR
//! windows of the MMIO seam. Written from the PCI and VirtIO 1.2 text (DESIGN appendix A).

use crate::hal::SimHal;
use crate::mmio::{BAR_VIRT_BASE, CAM_VIRT_BASE};
use crate::world::{self, PointKind, TrEv, World};
use std::collections::BTreeMap;
use virtio_drivers::transport::pci::PciTransport;
use virtio_drivers::transport::pci::bus::{Cam, ConfigurationAccess, DeviceFunction, MmioCam, PciRoot};

#[derive(Copy, Clone, Debug, PartialEq, Eq)]
pub enum BarKind {
    None,
    Mem32,
    Below1M,
    Mem64,
    /// upper half of the preceding 64-bit BAR
    Mem64Hi,
    Io,
    /// memory BAR with the reserved type encoding 0b11
    Reserved3,
}

#[derive(Clone, Debug)]
pub struct CfgAcc {
    pub df: (u8, u8, u8),
    pub reg: u8,
    pub write: bool,
    pub value: u32,
    /// command register value at the time of the access
    pub command: u16,
}

#[derive(Copy, Clone, Debug, Default, PartialEq, Eq)]
pub struct Win {
    pub bar: u8,
    pub off: u64,
    pub len: u64,
}

#[derive(Clone, Debug)]
pub struct PciFunc {
    pub raw: [u8; 256],
    pub command: u16,
    pub bar_regs: [u32; 6],
    pub bar_rw: [u32; 6],
    pub bar_kind: [BarKind; 6],
    pub bar_size: [u64; 6],
    pub guard_bar_writes: bool,
    pub virtio: Option<VirtioPci>,
}

#[derive(Clone, Debug, Default)]
pub struct VirtioPci {
    pub common: Win,
    pub notify: Win,
    pub notify_mult: u32,
    pub isr: Win,
    pub devcfg: Option<Win>,
    pub queue_notify_off: Vec<u16>,
    pub dev_feat_sel: u32,
    pub drv_feat_sel: u32,
    pub drv_feat: [u32; 2],
    pub queue_select: u16,
    pub msix_config: u16,
    /// per-queue staged parameters
    pub q_size: BTreeMap<u16, u16>,
    pub q_desc: BTreeMap<u16, u64>,
    pub q_driver: BTreeMap<u16, u64>,
    pub q_device: BTreeMap<u16, u64>,
    pub q_msix: BTreeMap<u16, u16>,
    /// common-cfg offsets written since the last queue_select write
    pub written_since_select: Vec<u32>,
    pub reset_delay: u32,
    pub reset_pending: Option<u32>,
    pub reset_polls: u64,
    /// strict access discipline (C11 oracle)
    pub strict: bool,
}

#[derive(Default)]
pub struct PciWorld {
    pub funcs: BTreeMap<(u8, u8, u8), PciFunc>,
    pub ecam: bool,
    pub log: Option<Vec<CfgAcc>>,
    /// windows the driver requested through mmio_phys_to_virt: (paddr, size, virtual base)
    pub maps: Vec<(u64, usize, usize)>,
    pub virtio_df: Option<(u8, u8, u8)>,
    /// advertise the device-configuration capability with exactly the configuration length
    /// (not rounded up to whole words)
    pub exact_cfg_len: bool,
}

impl PciFunc {
    pub fn new(vendor: u16, device: u16) -> Self {
        let mut raw = [0u8; 256];
        raw[0..2].copy_from_slice(&vendor.to_le_bytes());
        raw[2..4].copy_from_slice(&device.to_le_bytes());
        PciFunc {
            raw,
            command: 0,
            bar_regs: [0; 6],
            bar_rw: [0; 6],
            bar_kind: [BarKind::None; 6],
            bar_size: [0; 6],
            guard_bar_writes: false,
            virtio: None,
        }
    }

    pub fn set_bar(&mut self, i: usize, kind: BarKind, size: u64, prefetch: bool, addr: u64) {
        let pf = if prefetch { 8u32 } else { 0 };
        self.bar_kind[i] = kind;
        self.bar_size[i] = size;
        match kind {
            BarKind::None | BarKind::Mem64Hi => {
                self.bar_regs[i] = 0;
                self.bar_rw[i] = 0;
            }
            BarKind::Mem32 | BarKind::Below1M | BarKind::Reserved3 => {
                let t = match kind {
                    BarKind::Mem32 => 0u32,
                    BarKind::Below1M => 2,
                    _ => 6,
                };
                self.bar_rw[i] = (!(size.wrapping_sub(1)) as u32) & 0xffff_fff0;
                self.bar_regs[i] = ((addr as u32) & self.bar_rw[i]) | t | pf;
            }
            BarKind::Io => {
                self.bar_rw[i] = (!(size.wrapping_sub(1)) as u32) & 0xffff_fffc;
                self.bar_regs[i] = ((addr as u32) & self.bar_rw[i]) | 1;
            }
            BarKind::Mem64 => {
                let mask = !(size.wrapping_sub(1));
                self.bar_rw[i] = (mask as u32) & 0xffff_fff0;
                self.bar_regs[i] = ((addr as u32) & self.bar_rw[i]) | 4 | pf;
                if i + 1 < 6 {
                    self.bar_kind[i + 1] = BarKind::Mem64Hi;
                    self.bar_rw[i + 1] = (mask >> 32) as u32;
                    self.bar_regs[i + 1] = ((addr >> 32) as u32) & self.bar_rw[i + 1];
                    self.bar_size[i + 1] = 0;
                }
            }
        }
    }

    /// (address, size) of the memory BAR `i` as a device would decode it; None if not a memory BAR.
    pub fn mem_bar(&self, i: usize) -> Option<(u64, u64)> {
        match self.bar_kind.get(i)? {
            BarKind::Mem32 | BarKind::Below1M => Some(((self.bar_regs[i] & 0xffff_fff0) as u64, self.bar_size[i])),
            BarKind::Mem64 if i < 5 => Some((((self.bar_regs[i] & 0xffff_fff0) as u64) | ((self.bar_regs[i + 1] as u64) << 32), self.bar_size[i])),
            _ => None,
        }
    }

    pub fn read(&self, reg: u8) -> u32 {
        let r = (reg & 0xfc) as usize;
        match r {
            0x04 => (u16::from_le_bytes([self.raw[6], self.raw[7]]) as u32) << 16 | self.command as u32,
            0x10..=0x24 => self.bar_regs[(r - 0x10) / 4],
            _ => u32::from_le_bytes(self.raw[r..r + 4].try_into().unwrap()),
        }
    }

    pub fn write(&mut self, reg: u8, data: u32) -> Option<String> {
        let r = (reg & 0xfc) as usize;
        match r {
            0x04 => {
                self.command = (data & 0x07ff) as u16;
                None
            }
            0x10..=0x24 => {
                let i = (r - 0x10) / 4;
                let mut complaint = None;
                if self.guard_bar_writes && self.command & 3 != 0 {
                    complaint = Some(format!("BAR{i} written with {data:#x} while address decoding is enabled (command {:#x})", self.command));
                }
                self.bar_regs[i] = (self.bar_regs[i] & !self.bar_rw[i]) | (data & self.bar_rw[i]);
                complaint
            }
            _ => None,
        }
    }
}

fn pci(w: &mut World) -> &mut PciWorld {
    w.bus.pci.get_or_insert_with(PciWorld::default)
}

pub fn cfg_read(w: &mut World, df: (u8, u8, u8), reg: u8) -> u32 {
    let p = pci(w);
    let (v, cmd) = match p.funcs.get(&df) {
        Some(f) => (f.read(reg), f.command),
        None => (0xffff_ffff, 0),
    };
    if let Some(l) = &mut p.log {
        l.push(CfgAcc { df, reg, write: false, value: v, command: cmd });
    }
    w.ev(0x90, ((df.0 as u64) << 16) | ((df.1 as u64) << 8) | df.2 as u64, ((reg as u64) << 32) | v as u64);
    if let Some(t) = &mut w.trace {
        if t.len() < 100_000 {
            t.push(format!("[{}] pci cfg read {:02x}:{:02x}.{} reg {:#x} = {:#x}", w.tick, df.0, df.1, df.2, reg, v));
        }
    }
    v
}

pub fn cfg_write(w: &mut World, df: (u8, u8, u8), reg: u8, data: u32) {
    let p = pci(w);
    let mut complaint = None;
    let mut cmd = 0;
    if let Some(f) = p.funcs.get_mut(&df) {
        cmd = f.command;
        complaint = f.write(reg, data);
    }
    if let Some(l) = &mut p.log {
        l.push(CfgAcc { df, reg, write: true, value: data, command: cmd });
    }
    w.ev(0x91, ((df.0 as u64) << 16) | ((df.1 as u64) << 8) | df.2 as u64, ((reg as u64) << 32) | data as u64);
    if let Some(t) = &mut w.trace {
        if t.len() < 100_000 {
            t.push(format!("[{}] pci cfg write {:02x}:{:02x}.{} reg {:#x} = {:#x}", w.tick, df.0, df.1, df.2, reg, data));
        }
    }
    if let Some(c) = complaint {
        w.violation("bar-write-while-decoding", "config", c);
    }
}

/// Access through the memory-mapped configuration window (real `MmioCam`).
pub fn cam_access(w: &mut World, off: u64, width: u8, write: Option<u64>) -> u64 {
    if width != 4 || off % 4 != 0 {
        w.violation("cam-access-width", "cam", format!("{width}-byte access at CAM offset {off:#x}"));
    }
    let ecam = pci(w).ecam;
    let (bus, dev, func, reg) = if ecam {
        (((off >> 20) & 0xff) as u8, ((off >> 15) & 0x1f) as u8, ((off >> 12) & 7) as u8, (off & 0xfff) as u32)
    } else {
        (((off >> 16) & 0xff) as u8, ((off >> 11) & 0x1f) as u8, ((off >> 8) & 7) as u8, (off & 0xff) as u32)
    };
    if reg > 0xff {
        w.violation("cam-register-range", "cam", format!("ECAM access to extended register {reg:#x} (only 8-bit register offsets can be asked for)"));
        return 0xffff_ffff;
    }
    match write {
        None => cfg_read(w, (bus, dev, func), reg as u8) as u64,
        Some(v) => {
            cfg_write(w, (bus, dev, func), reg as u8, v as u32);
            0
        }
    }
}

/// Direct implementation of the configuration access trait.
pub struct SimCam;

impl ConfigurationAccess for SimCam {
    fn read_word(&self, df: DeviceFunction, register_offset: u8) -> u32 {
        world::with(|w| cfg_read(w, (df.bus, df.device, df.function), register_offset))
    }
    fn write_word(&mut self, df: DeviceFunction, register_offset: u8, data: u32) {
        world::with(|w| cfg_write(w, (df.bus, df.device, df.function), register_offset, data))
    }
    unsafe fn unsafe_clone(&self) -> Self {
        SimCam
    }
}

pub fn mmio_cam(ecam: bool) -> MmioCam<'static> {
    world::with(|w| pci(w).ecam = ecam);
    // SAFETY: never dereferenced (MMIO seam).
    unsafe { MmioCam::new(CAM_VIRT_BASE as *mut u8, if ecam { Cam::Ecam } else { Cam::MmioCam }) }
}

/// Virtual address for a window the driver asks to map (keeps the low 12 bits for alignment).
pub fn map_window(w: &mut World, paddr: u64, size: usize) -> usize {
    let p = pci(w);
    let idx = p.maps.len();
    let virt = BAR_VIRT_BASE + ((idx + 1) << 33) + (paddr as usize & 0xfff);
    p.maps.push((paddr, size, virt));
    virt
}

fn vp(w: &mut World) -> Option<&mut VirtioPci> {
    let p = w.bus.pci.as_mut()?;
    let df = p.virtio_df?;
    p.funcs.get_mut(&df)?.virtio.as_mut()
}

fn strict_violation(w: &mut World, class: &str, site: &str, msg: String) {
    if vp(w).map(|v| v.strict).unwrap_or(true) {
        w.violation(class, site, msg);
    }
}

/// (offset, size, name, writable)
pub const COMMON_FIELDS: &[(u32, u8, &str, bool)] = &[
    (0, 4, "device_feature_select", true),
    (4, 4, "device_feature", false),
    (8, 4, "driver_feature_select", true),
    (12, 4, "driver_feature", true),
    (16, 2, "msix_config", true),
    (18, 2, "num_queues", false),
    (20, 1, "device_status", true),
    (21, 1, "config_generation", false),
    (22, 2, "queue_select", true),
    (24, 2, "queue_size", true),
    (26, 2, "queue_msix_vector", true),
    (28, 2, "queue_enable", true),
    (30, 2, "queue_notify_off", false),
    (32, 8, "queue_desc", true),
    (40, 8, "queue_driver", true),
    (48, 8, "queue_device", true),
];

/// Access inside a BAR window (`off` is the offset from BAR_VIRT_BASE).
pub fn bar_access(w: &mut World, off: u64, width: u8, write: Option<u64>) -> u64 {
    let virt = BAR_VIRT_BASE + off as usize;
    let Some(p) = w.bus.pci.as_ref() else {
        w.violation("pci-no-device", "bar", format!("BAR access at {off:#x} without a PCI world"));
        return 0;
    };
    // which requested window?
    let Some(&(mpaddr, msize, mvirt)) = p.maps.iter().find(|(_, s, v)| virt >= *v && virt + width as usize <= *v + *s) else {
        w.violation(
            "pci-access-outside-requested-window",
            "bar",
            format!("{width}-byte MMIO access at virtual {virt:#x} lies in no window the driver mapped with mmio_phys_to_virt"),
        );
        return 0;
    };
    let paddr = mpaddr + (virt - mvirt) as u64;
    let _ = msize;
    let Some(df) = p.virtio_df else {
        return 0;
    };
    let f = &p.funcs[&df];
    let Some(v) = f.virtio.as_ref() else {
        return 0;
    };
    // which structure?
    let locate = |win: &Win| -> Option<u64> {
        let (ba, bs) = f.mem_bar(win.bar as usize)?;
        if ba == 0 || win.off.checked_add(win.len)? > bs {
            return None;
        }
        let start = ba + win.off;
        if paddr >= start && paddr + width as u64 <= start + win.len { Some(paddr - start) } else { None }
    };
    let (which, o) = if let Some(o) = locate(&v.common) {
        ("common", o)
    } else if let Some(o) = locate(&v.notify) {
        ("notify", o)
    } else if let Some(o) = locate(&v.isr) {
        ("isr", o)
    } else if let Some(o) = v.devcfg.as_ref().and_then(locate) {
        ("device", o)
    } else {
        w.violation(
            "pci-access-outside-structures",
            "bar",
            format!("{width}-byte MMIO access at bus address {paddr:#x} is inside a mapped window but in none of the device's virtio structures"),
        );
        return 0;
    };
    match which {
        "common" => common_access(w, o as u32, width, write),
        "notify" => {
            let Some(val) = write else {
                strict_violation(w, "pci-notify-read", "notify", "read from the notification window".into());
                return 0;
            };
            let v = vp(w).unwrap();
            let mult = v.notify_mult as u64;
            let q = val as u16;
            let want = v.queue_notify_off.get(q as usize).map(|n| *n as u64 * mult);
            if width != 2 {
                strict_violation(w, "pci-notify-width", "notify", format!("{width}-byte notification write"));
            }
            if want != Some(o) {
                strict_violation(
                    w,
                    "pci-notify-address",
                    "notify",
                    format!("queue {q} notified at window offset {o:#x}; its address is queue_notify_off x multiplier = {want:x?}"),
                );
            }
            w.t_notify(q);
            0
        }
        "isr" => {
            if write.is_some() {
                strict_violation(w, "pci-isr-write", "isr", "write to the ISR status".into());
                return 0;
            }
            if width != 1 || o != 0 {
                strict_violation(w, "pci-isr-width", "isr", format!("{width}-byte ISR read at offset {o}"));
            }
            // reading clears
            w.t_ack_interrupt() as u64
        }
        _ => {
            let n = width as usize;
            match write {
                None => {
                    let mut b = [0u8; 8];
                    if !w.t_read_config(o as usize, &mut b[..n]) {
                        w.violation("config-access-out-of-window", "config", format!("read of {n} bytes at device-config offset {o:#x} beyond the device's configuration"));
                    }
                    u64::from_le_bytes(b)
                }
                Some(val) => {
                    let b = val.to_le_bytes();
                    if !w.t_write_config(o as usize, &b[..n]) {
                        w.violation("config-access-out-of-window", "config", format!("write of {n} bytes at device-config offset {o:#x} beyond the device's configuration"));
                    }
                    0
                }
            }
        }
    }
}

fn common_access(w: &mut World, o: u32, width: u8, write: Option<u64>) -> u64 {
    // find the field
    let field = COMMON_FIELDS.iter().find(|f| o >= f.0 && o < f.0 + f.1 as u32).copied();
    let Some((fo, fs, name, writable)) = field else {
        strict_violation(w, "pci-common-offset", "common", format!("access at common-configuration offset {o} beyond the standard layout"));
        return 0;
    };
    let natural = (o == fo && width == fs) || (fs == 8 && width == 4 && (o == fo || o == fo + 4));
    if !natural {
        strict_violation(w, "pci-common-width", name, format!("{width}-byte access at offset {o} of field {name} (offset {fo}, {fs} bytes)"));
    }
    if write.is_some() && !writable {
        strict_violation(w, "pci-common-read-only", name, format!("write to read-only field {name}"));
        return 0;
    }
    let sel = vp(w).unwrap().queue_select;
    match write {
        None => match fo {
            0 => vp(w).unwrap().dev_feat_sel as u64,
            4 => {
                let s = vp(w).unwrap().dev_feat_sel;
                let f = w.t_read_features();
                match s {
                    0 => f & 0xffff_ffff,
                    1 => f >> 32,
                    _ => 0,
                }
            }
            8 => vp(w).unwrap().drv_feat_sel as u64,
            12 => {
                let v = vp(w).unwrap();
                v.drv_feat.get(v.drv_feat_sel as usize).copied().unwrap_or(0) as u64
            }
            16 => vp(w).unwrap().msix_config as u64,
            18 => w.tr.queues.len() as u64,
            20 => {
                // a reset may complete late
                let pending = vp(w).unwrap().reset_pending;
                if let Some(n) = pending {
                    let v = vp(w).unwrap();
                    v.reset_polls += 1;
                    if n == 0 {
                        v.reset_pending = None;
                        w.t_get_status() as u64
                    } else {
                        v.reset_pending = Some(n - 1);
                        *w.stats.faults.entry("reset_completes_late").or_insert(0) += 1;
                        w.sched_point(PointKind::Transport);
                        0x40
                    }
                } else {
                    w.t_get_status() as u64 & 0xff
                }
            }
            21 => w.t_read_gen() as u64 & 0xff,
            22 => sel as u64,
            24 => {
                let staged = vp(w).unwrap().q_size.get(&sel).copied();
                match staged {
                    Some(s) => s as u64,
                    None => w.t_max_queue_size(sel) as u64 & 0xffff,
                }
            }
            26 => vp(w).unwrap().q_msix.get(&sel).copied().unwrap_or(0xffff) as u64,
            28 => w.t_queue_used(sel) as u64,
            30 => vp(w).unwrap().queue_notify_off.get(sel as usize).copied().unwrap_or(0) as u64,
            32 | 40 | 48 => {
                let v = vp(w).unwrap();
                let m = match fo {
                    32 => &v.q_desc,
                    40 => &v.q_driver,
                    _ => &v.q_device,
                };
                let full = m.get(&sel).copied().unwrap_or(0);
                if width == 8 { full } else if o == fo { full & 0xffff_ffff } else { full >> 32 }
            }
            _ => 0,
        },
        Some(val) => {
            {
                let v = vp(w).unwrap();
                if fo == 22 {
                    v.written_since_select.clear();
                } else {
                    v.written_since_select.push(fo);
                }
            }
            match fo {
                0 => vp(w).unwrap().dev_feat_sel = val as u32,
                8 => vp(w).unwrap().drv_feat_sel = val as u32,
                12 => {
                    let v = vp(w).unwrap();
                    let s = v.drv_feat_sel as usize;
                    if s < 2 {
                        v.drv_feat[s] = val as u32;
                    }
                    let f = v.drv_feat[0] as u64 | ((v.drv_feat[1] as u64) << 32);
                    w.t_write_features(f);
                }
                16 => vp(w).unwrap().msix_config = val as u16,
                20 => {
                    let s = val as u32 & 0xff;
                    if s == 0 {
                        let delay = vp(w).unwrap().reset_delay;
                        let n = if delay > 0 { w.tape.choose(delay as u64 + 1) as u32 } else { 0 };
                        if n > 0 {
                            vp(w).unwrap().reset_pending = Some(n);
                        }
                        let v = vp(w).unwrap();
                        v.q_size.clear();
                        v.q_desc.clear();
                        v.q_driver.clear();
                        v.q_device.clear();
                        v.drv_feat = [0, 0];
                        // a reset returns every register to its initial value
                        v.queue_select = 0;
                        v.written_since_select.clear();
                    }
                    w.t_set_status(s);
                }
                22 => vp(w).unwrap().queue_select = val as u16,
                24 => {
                    vp(w).unwrap().q_size.insert(sel, val as u16);
                }
                26 => {
                    vp(w).unwrap().q_msix.insert(sel, val as u16);
                }
                28 => {
                    if val == 1 {
                        let v = vp(w).unwrap();
                        let ws = v.written_since_select.clone();
                        let en = ws.iter().rposition(|x| *x == 28).unwrap();
                        let ok = [32u32, 40, 48].iter().all(|r| ws.iter().position(|x| x == r).is_some_and(|p| p < en));
                        let size = v.q_size.get(&sel).copied();
                        let (d, dr, de) = (v.q_desc.get(&sel).copied().unwrap_or(0), v.q_driver.get(&sel).copied().unwrap_or(0), v.q_device.get(&sel).copied().unwrap_or(0));
                        if !ok {
                            strict_violation(
                                w,
                                "pci-queue-setup-order",
                                "queue_enable",
                                format!("queue_enable written 1 before queue_desc/queue_driver/queue_device were written after selecting the queue; writes since queue_select: {ws:?}"),
                            );
                        }
                        let size = match size {
                            Some(s) => s as u32,
                            None => w.t_max_queue_size(sel),
                        };
                        w.t_queue_set(sel, size, d, dr, de);
                    } else {
                        strict_violation(w, "pci-queue-enable-value", "queue_enable", format!("queue_enable written with {val} (the PCI transport cannot disable a queue)"));
                    }
                }
                32 | 40 | 48 => {
                    let v = vp(w).unwrap();
                    let m = match fo {
                        32 => &mut v.q_desc,
                        40 => &mut v.q_driver,
                        _ => &mut v.q_device,
                    };
                    let cur = m.get(&sel).copied().unwrap_or(0);
                    let new = if width == 8 {
                        val
                    } else if o == fo {
                        (cur & !0xffff_ffff) | (val & 0xffff_ffff)
                    } else {
                        (cur & 0xffff_ffff) | (val << 32)
                    };
                    m.insert(sel, new);
                }
                _ => {}
            }
            0
        }
    }
}

/// Fills the capability list of `f` at 0x40.. from (cfg_type, cap_len, bar, offset, length, extra)
/// tuples, in the given order; `id` 0x09 = vendor specific, anything else = foreign capability.
pub fn write_caps(f: &mut PciFunc, caps: &[(u8, u8, u8, u8, u32, u32, u32)]) {
    // status: capability list present
    f.raw[6] |= 0x10;
    let mut pos = 0x40usize;
    f.raw[0x34] = if caps.is_empty() { 0 } else { pos as u8 };
    for (i, (id, cfg_type, cap_len, bar, offset, length, extra)) in caps.iter().enumerate() {
        let size = 24usize;
        let next = if i + 1 < caps.len() { pos + size } else { 0 };
        f.raw[pos] = *id;
        f.raw[pos + 1] = next as u8;
        f.raw[pos + 2] = *cap_len;
        f.raw[pos + 3] = *cfg_type;
        f.raw[pos + 4] = *bar;
        f.raw[pos + 5] = 0;
        f.raw[pos + 8..pos + 12].copy_from_slice(&offset.to_le_bytes());
        f.raw[pos + 12..pos + 16].copy_from_slice(&length.to_le_bytes());
        f.raw[pos + 16..pos + 20].copy_from_slice(&extra.to_le_bytes());
        pos += size;
        if pos + size > 256 {
            break;
        }
    }
}

pub const VIRTIO_DF: (u8, u8, u8) = (0, 3, 0);

/// A well-formed virtio-pci function for `device_type` with `config_len` bytes of device
/// configuration; details (BAR slot, 32/64 bit, window placement, multiplier) drawn from the tape.
pub fn install_standard_function(w: &mut World, device_type: u32, config_len: usize) {
    let slot = w.tape.choose(5) as usize;
    let is64 = w.tape.choose(2) == 0;
    let mult = [4u32, 0, 2, 8][w.tape.choose(4) as usize];
    let nq = w.tr.queues.len().max(1);
    let mut f = PciFunc::new(0x1af4, 0x1040 + device_type as u16);
    f.raw[0x0a] = 0x80;
    f.raw[0x0b] = 0xff;
    let size = 0x10000u64;
    let addr = if is64 { 0x8_0000_0000u64 + 0x10000 * (1 + w.tape.choose(64)) } else { 0x9000_0000 + 0x10000 * w.tape.choose(64) };
    f.set_bar(slot, if is64 { BarKind::Mem64 } else { BarKind::Mem32 }, size, is64, addr);
    f.command = 0x6;
    let common = Win { bar: slot as u8, off: 0x0, len: 0x38 };
    let notify = Win { bar: slot as u8, off: 0x3000, len: 0x1000 };
    let isr = Win { bar: slot as u8, off: 0x1000, len: 4 };
    let exact = w.bus.pci.as_ref().is_some_and(|p| p.exact_cfg_len);
    let clen4 = if exact { config_len as u64 } else { ((config_len + 3) & !3) as u64 };
    let devcfg = if w.tr.has_config { Some(Win { bar: slot as u8, off: 0x2000, len: if exact { clen4 } else { clen4.max(4) } }) } else { None };
    if !exact && w.tr.has_config && (w.tr.config.len() as u64) < clen4.max(4) {
        // the capability window is a whole number of 32-bit words; the device pads with zeros
        w.tr.config.resize(clen4.max(4) as usize, 0);
    }
    let mut caps = vec![
        (0x09u8, 1u8, 16u8, slot as u8, common.off as u32, common.len as u32, 0u32),
        (0x09, 2, 20, slot as u8, notify.off as u32, notify.len as u32, mult),
        (0x09, 3, 16, slot as u8, isr.off as u32, isr.len as u32, 0),
    ];
    if let Some(d) = devcfg {
        caps.push((0x09, 4, 16, slot as u8, d.off as u32, d.len as u32, 0));
    }
    // a foreign capability in front, and the PCI configuration access capability (type 5) behind
    caps.insert(0, (0x05, 0, 0, 0, 0, 0, 0));
    caps.push((0x09, 5, 20, 0, 0, 4, 0));
    write_caps(&mut f, &caps);
    let offs: Vec<u16> = (0..nq as u16).map(|q| if mult == 0 { 0 } else { q }).collect();
    f.virtio = Some(VirtioPci { common, notify, notify_mult: mult, isr, devcfg, queue_notify_off: offs, strict: true, ..Default::default() });
    let p = pci(w);
    p.funcs.insert(VIRTIO_DF, f);
    p.virtio_df = Some(VIRTIO_DF);
    w.hal.mmio_virt_of = None;
}

pub fn virtio_df() -> DeviceFunction {
    DeviceFunction { bus: VIRTIO_DF.0, device: VIRTIO_DF.1, function: VIRTIO_DF.2 }
}

/// Real `PciTransport` over a standard well-formed function (used by the driver zoo).
pub fn make_pci_transport(device_type: u32, config_len: usize) -> Result<PciTransport, String> {
    let via_cam = world::with(|w| {
        install_standard_function(w, device_type, config_len);
        w.tape.choose(3)
    });
    let r = match via_cam {
        0 => PciTransport::new::<SimHal, _>(&mut PciRoot::new(SimCam), virtio_df()),
        1 => PciTransport::new::<SimHal, _>(&mut PciRoot::new(mmio_cam(false)), virtio_df()),
        _ => PciTransport::new::<SimHal, _>(&mut PciRoot::new(mmio_cam(true)), virtio_df()),
    };
    r.map_err(|e| format!("{e:?}"))
}

#[allow(dead_code)]
fn _unused(_: TrEv) {}
