//! vdsim: deterministic simulation of rcore-os/virtio-drivers with fault injection.

mod hal;
mod heapwatch;
mod hooks;
mod json;
mod mmio;
mod mtransport;
mod pcidev;
mod props;
mod rng;
mod runner;
mod scen;
mod vq;
mod world;
mod zoo;
mod devices;

use runner::Tier;

#[global_allocator]
static ALLOC: heapwatch::WatchAlloc = heapwatch::WatchAlloc;

fn usage() -> ! {
    eprintln!("usage: vdsim check <C01..C20> [--tier quick|thorough] [--seed N] [--no-evidence]");
    eprintln!("       vdsim replay <file>");
    eprintln!("       vdsim determinism [--runs N]");
    std::process::exit(2);
}

fn main() {
    runner::install_panic_hook();
    let args: Vec<String> = std::env::args().collect();
    if args.len() < 2 {
        usage();
    }
    let mut tier = match std::env::var("VERIF_TIER").as_deref() {
        Ok("thorough") => Tier::Thorough,
        _ => Tier::Quick,
    };
    let mut seed: u64 = std::env::var("VERIF_SEED").ok().and_then(|s| s.parse().ok()).unwrap_or(20260925);
    let mut evidence = true;
    let mut runs: u64 = 400;
    let mut i = if args[1] == "determinism" { 2 } else { 3 };
    while i < args.len() {
        match args[i].as_str() {
            "--tier" => {
                i += 1;
                tier = match args.get(i).map(|s| s.as_str()) {
                    Some("thorough") => Tier::Thorough,
                    Some("quick") => Tier::Quick,
                    _ => usage(),
                };
            }
            "--seed" => {
                i += 1;
                seed = args.get(i).and_then(|s| s.parse().ok()).unwrap_or_else(|| usage());
            }
            "--runs" => {
                i += 1;
                runs = args.get(i).and_then(|s| s.parse().ok()).unwrap_or_else(|| usage());
            }
            "--no-evidence" => evidence = false,
            _ => usage(),
        }
        i += 1;
    }
    let code = match args[1].as_str() {
        "check" => {
            let id = args.get(2).unwrap_or_else(|| usage());
            match props::spec(id) {
                Some(s) => runner::run_property(&s, tier, seed, evidence),
                None => {
                    println!("HARNESS-ERROR: property {id} has no check");
                    2
                }
            }
        }
        "replay" => {
            let p = args.get(2).unwrap_or_else(|| usage());
            runner::replay_file(p, props::find_batch)
        }
        "determinism" => determinism(seed, runs),
        _ => usage(),
    };
    std::process::exit(code);
}

/// Prints one line per (property, batch, run index): event-log hash. Two invocations (different
/// processes, different worker counts) must print identical output.
fn determinism(seed: u64, runs: u64) -> i32 {
    use std::io::Write;
    let out = std::io::stdout();
    let mut out = out.lock();
    for id in props::ALL {
        let s = props::spec(id).unwrap();
        for b in &s.batches {
            let n = if b.heavy { (runs / 100).max(2) } else { runs };
            let hashes = std::sync::Mutex::new(vec![0u64; n as usize]);
            let next = std::sync::atomic::AtomicU64::new(0);
            std::thread::scope(|sc| {
                for _ in 0..runner::workers() {
                    std::thread::Builder::new()
                        .stack_size(512 << 20)
                        .spawn_scoped(sc, || loop {
                            let i = next.fetch_add(1, std::sync::atomic::Ordering::Relaxed);
                            if i >= n {
                                break;
                            }
                            let sd = runner::run_seed(seed, id, b.name, i);
                            let o = runner::exec_run(b.scn(), rng::Tape::generate(sd), false);
                            let h = o.log_hash ^ (o.violations.len() as u64) ^ rng::mix(&o.tape);
                            hashes.lock().unwrap()[i as usize] = h;
                        })
                        .unwrap();
                }
            });
            for (i, h) in hashes.into_inner().unwrap().iter().enumerate() {
                let _ = writeln!(out, "{id} {} {i} {h:016x}", b.name);
            }
        }
    }
    0
}
