//! The MMIO seam (safe-mmio `custom-mmio`): every load/store of the real MmioTransport,
//! PciTransport and MmioCam arrives here with its address, width and value. Nothing behind these
//! windows is real memory; the windows are never dereferenced.
//!
//! This file also contains the register-level virtio-mmio reference device (version 1 and 2),
//! transcribed from the specification's register table (DESIGN appendix A). It is the C10 oracle:
//! width, alignment, direction, offsets defined for the version, ordering of per-queue writes.

use crate::world::{self, World};

/// Fake, never dereferenced virtual windows.
pub const MMIO_VIRT_BASE: usize = 0x7000_0000_0000;
pub const MMIO_VIRT_SIZE: usize = 0x10_0000;
pub const BAR_VIRT_BASE: usize = 0x6000_0000_0000;
pub const BAR_VIRT_SIZE: usize = 0x1000_0000_0000;
pub const CAM_VIRT_BASE: usize = 0x5000_0000_0000;
pub const CAM_VIRT_SIZE: usize = 0x1000_0000;

#[derive(Clone, Debug, PartialEq, Eq)]
pub struct MmioAcc {
    /// 'M' virtio-mmio window, 'B' PCI BAR window, 'C' PCI configuration access window
    pub window: char,
    /// offset inside the window (for 'B': the physical address)
    pub off: u64,
    pub width: u8,
    pub write: bool,
    pub value: u64,
}

#[derive(Default)]
pub struct MmioBus {
    pub capture: Option<Vec<MmioAcc>>,
    pub dev: Option<MmioDev>,
    pub pci: Option<crate::pcidev::PciWorld>,
    pub accesses: u64,
}

/// Register-level state of the virtio-mmio device that is not part of the generic device state.
pub struct MmioDev {
    pub version: u32,
    pub magic: u32,
    pub device_id: u32,
    pub vendor_id: u32,
    /// Size of the whole region handed to the driver (header + config).
    pub region_size: usize,
    pub dev_feat_sel: u32,
    pub drv_feat_sel: u32,
    pub drv_feat_lo: u32,
    pub drv_feat_hi: u32,
    pub queue_sel: u32,
    pub queue_num: u32,
    pub queue_align: u32,
    pub guest_page_size: u32,
    pub guest_page_size_written: bool,
    pub desc_lo: u32,
    pub desc_hi: u32,
    pub drv_lo: u32,
    pub drv_hi: u32,
    pub dev_lo: u32,
    pub dev_hi: u32,
    /// Registers written since the last QueueSel write (for the ordering oracle).
    pub written_since_sel: Vec<u32>,
    /// QueueReady reads that still return 1 after a 0 was written (late-clearing fault).
    pub ready_clear_delay: u32,
    pub ready_pending_clear: Option<u32>,
    /// Number of reads of QueueReady while the clear was pending.
    pub ready_polls: u64,
    /// Was anything written at all (probe must not write).
    pub writes: u64,
    /// Strict register-discipline checking (C10 oracle) on/off.
    pub strict: bool,
}

impl MmioDev {
    pub fn new(version: u32, device_id: u32, region_size: usize) -> Self {
        MmioDev {
            version,
            magic: 0x7472_6976,
            device_id,
            vendor_id: 0x554d_4551,
            region_size,
            dev_feat_sel: 0,
            drv_feat_sel: 0,
            drv_feat_lo: 0,
            drv_feat_hi: 0,
            queue_sel: 0,
            queue_num: 0,
            queue_align: 0,
            guest_page_size: 0,
            guest_page_size_written: false,
            desc_lo: 0,
            desc_hi: 0,
            drv_lo: 0,
            drv_hi: 0,
            dev_lo: 0,
            dev_hi: 0,
            written_since_sel: Vec::new(),
            ready_clear_delay: 0,
            ready_pending_clear: None,
            ready_polls: 0,
            writes: 0,
            strict: true,
        }
    }
}

const R: u8 = 1;
const W: u8 = 2;
/// (offset, name, access, versions: 1 legacy only, 2 modern only, 3 both)
pub const REGS: &[(u32, &str, u8, u8)] = &[
    (0x000, "MagicValue", R, 3),
    (0x004, "Version", R, 3),
    (0x008, "DeviceID", R, 3),
    (0x00c, "VendorID", R, 3),
    (0x010, "DeviceFeatures", R, 3),
    (0x014, "DeviceFeaturesSel", W, 3),
    (0x020, "DriverFeatures", W, 3),
    (0x024, "DriverFeaturesSel", W, 3),
    (0x028, "GuestPageSize", W, 1),
    (0x030, "QueueSel", W, 3),
    (0x034, "QueueNumMax", R, 3),
    (0x038, "QueueNum", W, 3),
    (0x03c, "QueueAlign", W, 1),
    (0x040, "QueuePFN", R | W, 1),
    (0x044, "QueueReady", R | W, 2),
    (0x050, "QueueNotify", W, 3),
    (0x060, "InterruptStatus", R, 3),
    (0x064, "InterruptACK", W, 3),
    (0x070, "Status", R | W, 3),
    (0x080, "QueueDescLow", W, 2),
    (0x084, "QueueDescHigh", W, 2),
    (0x090, "QueueDriverLow", W, 2),
    (0x094, "QueueDriverHigh", W, 2),
    (0x0a0, "QueueDeviceLow", W, 2),
    (0x0a4, "QueueDeviceHigh", W, 2),
    (0x0fc, "ConfigGeneration", R, 2),
];

pub fn reg_name(off: u32) -> &'static str {
    REGS.iter().find(|r| r.0 == off).map(|r| r.1).unwrap_or("reserved")
}

impl World {
    fn mmio_violation(&mut self, class: &str, site: &str, msg: String) {
        let strict = self.bus.dev.as_ref().map(|d| d.strict).unwrap_or(true);
        if strict {
            self.violation(class, site, msg);
        }
    }

    /// One access to the virtio-mmio window.
    fn mmio_dev_access(&mut self, off: u64, width: u8, write: Option<u64>) -> u64 {
        let Some(region) = self.bus.dev.as_ref().map(|d| d.region_size) else {
            self.violation("mmio-no-device", "mmio", format!("access at {off:#x} without a device"));
            return 0;
        };
        if off + width as u64 > region as u64 {
            self.violation(
                "mmio-out-of-region",
                "mmio",
                format!("{}-byte {} at offset {off:#x} outside the {region:#x}-byte region", width, if write.is_some() { "write" } else { "read" }),
            );
            return 0;
        }
        if off >= 0x100 {
            // device configuration space
            let o = (off - 0x100) as usize;
            let n = width as usize;
            if off % width as u64 != 0 {
                // Not judged: how a caller-chosen type is split into accesses is safe-mmio's
                // business, and no property speaks about it. Counted for the evidence only.
                *self.stats.probes.entry("config_access_not_naturally_aligned").or_insert(0) += 1;
            }
            return match write {
                None => {
                    let mut b = [0u8; 8];
                    if !self.t_read_config(o, &mut b[..n]) {
                        self.violation("config-access-out-of-window", "config", format!("read of {n} bytes at config offset {o:#x} beyond the device's configuration"));
                    }
                    u64::from_le_bytes(b)
                }
                Some(v) => {
                    let b = v.to_le_bytes();
                    if !self.t_write_config(o, &b[..n]) {
                        self.violation("config-access-out-of-window", "config", format!("write of {n} bytes at config offset {o:#x} beyond the device's configuration"));
                    }
                    0
                }
            };
        }
        let o = off as u32;
        let version = self.bus.dev.as_ref().unwrap().version;
        let vbit = if version == 1 { 1 } else { 2 };
        let name = reg_name(o);
        if width != 4 || o % 4 != 0 {
            self.mmio_violation("mmio-access-width", name, format!("{width}-byte access at register offset {o:#x}; registers are 32 bits wide and 4-aligned"));
        }
        let def = REGS.iter().find(|r| r.0 == (o & !3)).copied();
        match def {
            None => {
                self.mmio_violation("mmio-reserved-register", "reserved", format!("{} of reserved offset {o:#x}", if write.is_some() { "write" } else { "read" }));
                return 0;
            }
            Some((_, _, acc, vers)) => {
                if vers & vbit == 0 {
                    self.mmio_violation(
                        "mmio-wrong-version-register",
                        name,
                        format!("{name} ({o:#x}) accessed on a version {version} device; it exists only in the {} interface", if vers == 1 { "legacy" } else { "modern" }),
                    );
                }
                if write.is_some() && acc & W == 0 {
                    self.mmio_violation("mmio-write-to-read-only", name, format!("write to read-only register {name} ({o:#x})"));
                    return 0;
                }
                if write.is_none() && acc & R == 0 {
                    self.mmio_violation("mmio-read-of-write-only", name, format!("read of write-only register {name} ({o:#x})"));
                    return 0;
                }
            }
        }
        match write {
            None => self.mmio_reg_read(o),
            Some(v) => {
                self.bus.dev.as_mut().unwrap().writes += 1;
                self.mmio_reg_write(o, v as u32);
                0
            }
        }
    }

    fn mmio_reg_read(&mut self, o: u32) -> u64 {
        let d = self.bus.dev.as_ref().unwrap();
        let sel = d.queue_sel;
        let v: u32 = match o {
            0x000 => d.magic,
            0x004 => d.version,
            0x008 => d.device_id,
            0x00c => d.vendor_id,
            0x010 => {
                let s = d.dev_feat_sel;
                let f = self.t_read_features();
                match s {
                    0 => f as u32,
                    1 => (f >> 32) as u32,
                    _ => 0,
                }
            }
            0x034 => self.t_max_queue_size(sel as u16),
            0x040 => {
                // legacy: PFN of the selected queue (non-zero = in use)
                let used = self.t_queue_used(sel as u16);
                let d = self.bus.dev.as_ref().unwrap();
                if used {
                    let desc = self.tr.queues.get(sel as usize).map(|q| q.desc).unwrap_or(0);
                    if desc != 0 && d.guest_page_size != 0 { (desc / d.guest_page_size as u64) as u32 } else { 1 }
                } else {
                    0
                }
            }
            0x044 => {
                // modern: QueueReady, possibly clearing late
                let pending = self.bus.dev.as_ref().unwrap().ready_pending_clear;
                if let Some(n) = pending {
                    let d = self.bus.dev.as_mut().unwrap();
                    d.ready_polls += 1;
                    if n == 0 {
                        d.ready_pending_clear = None;
                        self.t_queue_unset(sel as u16);
                        0
                    } else {
                        d.ready_pending_clear = Some(n - 1);
                        *self.stats.faults.entry("queue_ready_clears_late").or_insert(0) += 1;
                        self.sched_point(world::PointKind::Transport);
                        1
                    }
                } else {
                    self.t_queue_used(sel as u16) as u32
                }
            }
            0x060 => {
                self.sched_point(world::PointKind::Transport);
                self.tr.isr
            }
            0x070 => self.t_get_status(),
            0x0fc => self.t_read_gen(),
            _ => 0,
        };
        v as u64
    }

    fn mmio_reg_write(&mut self, o: u32, v: u32) {
        let version = self.bus.dev.as_ref().unwrap().version;
        {
            let d = self.bus.dev.as_mut().unwrap();
            if o == 0x030 {
                d.written_since_sel.clear();
            } else {
                d.written_since_sel.push(o);
            }
        }
        let sel = self.bus.dev.as_ref().unwrap().queue_sel as u16;
        match o {
            0x014 => self.bus.dev.as_mut().unwrap().dev_feat_sel = v,
            0x024 => self.bus.dev.as_mut().unwrap().drv_feat_sel = v,
            0x020 => {
                let d = self.bus.dev.as_mut().unwrap();
                match d.drv_feat_sel {
                    0 => d.drv_feat_lo = v,
                    1 => d.drv_feat_hi = v,
                    _ => {}
                }
                let f = (d.drv_feat_lo as u64) | ((d.drv_feat_hi as u64) << 32);
                // The device state always holds the combination of both halves written so far.
                self.t_write_features(f);
            }
            0x028 => {
                let d = self.bus.dev.as_mut().unwrap();
                d.guest_page_size = v;
                d.guest_page_size_written = true;
                self.tr.guest_page_size = v;
                self.tr_event(world::TrEv::SetGuestPageSize(v));
            }
            0x030 => self.bus.dev.as_mut().unwrap().queue_sel = v,
            0x038 => self.bus.dev.as_mut().unwrap().queue_num = v,
            0x03c => self.bus.dev.as_mut().unwrap().queue_align = v,
            0x040 => {
                // legacy QueuePFN: non-zero registers the queue, zero releases it
                if v == 0 {
                    self.t_queue_unset(sel);
                } else {
                    let d = self.bus.dev.as_ref().unwrap();
                    let (num, align, gps, gpsw) = (d.queue_num, d.queue_align, d.guest_page_size, d.guest_page_size_written);
                    let w = d.written_since_sel.clone();
                    if !gpsw {
                        self.mmio_violation("mmio-legacy-no-guest-page-size", "QueuePFN", "QueuePFN written although GuestPageSize was never written".into());
                    }
                    let pos = |r: u32| w.iter().position(|x| *x == r);
                    // (the write being judged is the last QueuePFN write; an earlier one of 0 stopped
                    // a queue that was still live)
                    let (pn, pa, pp) = (pos(0x038), pos(0x03c), w.iter().rposition(|x| *x == 0x040));
                    if !(pn.is_some() && pa.is_some() && pn < pp && pa < pp) {
                        self.mmio_violation(
                            "mmio-queue-setup-order",
                            "QueuePFN",
                            format!("legacy queue setup must write QueueNum and QueueAlign before QueuePFN after selecting the queue; writes since QueueSel: {:x?}", w),
                        );
                    }
                    if align == 0 || !align.is_power_of_two() {
                        self.mmio_violation("mmio-queue-align", "QueueAlign", format!("QueueAlign {align} is not a power of two"));
                    }
                    let align = align.max(1) as u64;
                    let n = num as u64;
                    let desc = v as u64 * gps as u64;
                    let driver = desc + 16 * n;
                    let device = (driver + 6 + 2 * n + align - 1) & !(align - 1);
                    self.t_queue_set(sel, num, desc, driver, device);
                }
            }
            0x044 => {
                if v == 1 {
                    let d = self.bus.dev.as_ref().unwrap();
                    let w = d.written_since_sel.clone();
                    let need = [0x038u32, 0x080, 0x084, 0x090, 0x094, 0x0a0, 0x0a4];
                    let ready_pos = w.iter().rposition(|x| *x == 0x044).unwrap();
                    let all_before = need.iter().all(|r| w.iter().position(|x| x == r).is_some_and(|p| p < ready_pos));
                    if !all_before {
                        self.mmio_violation(
                            "mmio-queue-setup-order",
                            "QueueReady",
                            format!("QueueReady written 1 before all queue parameters (QueueNum and the three address pairs) were written after selecting the queue; writes since QueueSel: {:x?}", w),
                        );
                    }
                    let d = self.bus.dev.as_ref().unwrap();
                    let desc = d.desc_lo as u64 | ((d.desc_hi as u64) << 32);
                    let drv = d.drv_lo as u64 | ((d.drv_hi as u64) << 32);
                    let dev = d.dev_lo as u64 | ((d.dev_hi as u64) << 32);
                    let num = d.queue_num;
                    self.t_queue_set(sel, num, desc, drv, dev);
                } else if v == 0 {
                    // The device may need a while to stop using the queue.
                    let delay = self.bus.dev.as_ref().unwrap().ready_clear_delay;
                    let n = if delay > 0 { self.tape.choose(delay as u64 + 1) as u32 } else { 0 };
                    if self.t_queue_used_quiet(sel) {
                        self.bus.dev.as_mut().unwrap().ready_pending_clear = Some(n);
                        if n == 0 {
                            self.bus.dev.as_mut().unwrap().ready_pending_clear = None;
                            self.t_queue_unset(sel);
                        }
                    } else {
                        self.t_queue_unset(sel);
                    }
                } else {
                    self.mmio_violation("mmio-queue-ready-value", "QueueReady", format!("QueueReady written with {v}"));
                }
            }
            0x050 => self.t_notify(v as u16),
            0x064 => {
                let before = self.tr.isr;
                self.tr.isr &= !v;
                self.ev(0x78, v as u64, before as u64);
                self.tr_event(world::TrEv::AckInterrupt(v));
            }
            0x070 => {
                // A pending late clear is resolved by a reset.
                if v == 0 {
                    self.bus.dev.as_mut().unwrap().ready_pending_clear = None;
                }
                self.t_set_status(v)
            }
            0x080 => self.bus.dev.as_mut().unwrap().desc_lo = v,
            0x084 => self.bus.dev.as_mut().unwrap().desc_hi = v,
            0x090 => self.bus.dev.as_mut().unwrap().drv_lo = v,
            0x094 => self.bus.dev.as_mut().unwrap().drv_hi = v,
            0x0a0 => self.bus.dev.as_mut().unwrap().dev_lo = v,
            0x0a4 => self.bus.dev.as_mut().unwrap().dev_hi = v,
            _ => {}
        }
        let _ = version;
    }

    pub fn t_queue_used_quiet(&self, q: u16) -> bool {
        self.tr.queues.get(q as usize).map(|r| r.ready).unwrap_or(false)
    }

    pub fn mmio_access(&mut self, addr: usize, width: u8, write: Option<u64>) -> u64 {
        self.bus.accesses += 1;
        let (window, off) = if (MMIO_VIRT_BASE..MMIO_VIRT_BASE + MMIO_VIRT_SIZE).contains(&addr) {
            ('M', (addr - MMIO_VIRT_BASE) as u64)
        } else if (CAM_VIRT_BASE..CAM_VIRT_BASE + CAM_VIRT_SIZE).contains(&addr) {
            ('C', (addr - CAM_VIRT_BASE) as u64)
        } else if (BAR_VIRT_BASE..BAR_VIRT_BASE + BAR_VIRT_SIZE).contains(&addr) {
            ('B', (addr - BAR_VIRT_BASE) as u64)
        } else {
            self.violation("mmio-wild-access", "mmio", format!("MMIO access to {addr:#x}, which is in no window handed to the driver"));
            return 0;
        };
        self.ev(0x80 + (window as u8 & 0xf), off, ((width as u64) << 40) | write.map(|v| v & 0xff_ffff_ffff).unwrap_or(0x1_0000_0000));
        let v = match window {
            'M' => self.mmio_dev_access(off, width, write),
            'C' => crate::pcidev::cam_access(self, off, width, write),
            _ => crate::pcidev::bar_access(self, off, width, write),
        };
        let mask = if width >= 8 { u64::MAX } else { (1u64 << (8 * width as u32)) - 1 };
        let rec = MmioAcc { window, off, width, write: write.is_some(), value: write.unwrap_or(v) & mask };
        if let Some(t) = &mut self.trace {
            if t.len() < 100_000 {
                t.push(format!(
                    "[{}] mmio {}{} {} {:#x}{} = {:#x}",
                    self.tick,
                    if rec.write { "w" } else { "r" },
                    width * 8,
                    window,
                    off,
                    if window == 'M' && off < 0x100 { format!(" ({})", reg_name(off as u32 & !3)) } else { String::new() },
                    rec.value
                ));
            }
        }
        if let Some(c) = &mut self.bus.capture {
            c.push(rec);
        }
        v & mask
    }
}

struct Ops;

fn acc(addr: usize, width: u8, write: Option<u64>) -> u64 {
    world::with(|w| w.mmio_access(addr, width, write))
}

impl safe_mmio::MmioOps for Ops {
    unsafe fn read_u8(src: *const u8) -> u8 {
        acc(src as usize, 1, None) as u8
    }
    unsafe fn read_u16(src: *const u16) -> u16 {
        acc(src as usize, 2, None) as u16
    }
    unsafe fn read_u32(src: *const u32) -> u32 {
        acc(src as usize, 4, None) as u32
    }
    unsafe fn read_u64(src: *const u64) -> u64 {
        acc(src as usize, 8, None)
    }
    unsafe fn write_u8(dst: *mut u8, value: u8) {
        acc(dst as usize, 1, Some(value as u64));
    }
    unsafe fn write_u16(dst: *mut u16, value: u16) {
        acc(dst as usize, 2, Some(value as u64));
    }
    unsafe fn write_u32(dst: *mut u32, value: u32) {
        acc(dst as usize, 4, Some(value as u64));
    }
    unsafe fn write_u64(dst: *mut u64, value: u64) {
        acc(dst as usize, 8, Some(value));
    }
}

safe_mmio::set_mmio_ops!(Ops);
