//! The MMIO seam (safe-mmio `custom-mmio`): every load/store of the real MmioTransport,
//! PciTransport and MmioCam arrives here with its address, width and value.

/// Fake, never dereferenced virtual window for PCI BARs.
pub const BAR_VIRT_BASE: usize = 0x6000_0000_0000;

struct Ops;

impl safe_mmio::MmioOps for Ops {
    unsafe fn read_u8(src: *const u8) -> u8 { unimplemented!("{src:?}") }
    unsafe fn read_u16(src: *const u16) -> u16 { unimplemented!("{src:?}") }
    unsafe fn read_u32(src: *const u32) -> u32 { unimplemented!("{src:?}") }
    unsafe fn read_u64(src: *const u64) -> u64 { unimplemented!("{src:?}") }
    unsafe fn write_u8(dst: *mut u8, _value: u8) { unimplemented!("{dst:?}") }
    unsafe fn write_u16(dst: *mut u16, _value: u16) { unimplemented!("{dst:?}") }
    unsafe fn write_u32(dst: *mut u32, _value: u32) { unimplemented!("{dst:?}") }
    unsafe fn write_u64(dst: *mut u64, _value: u64) { unimplemented!("{dst:?}") }
}

safe_mmio::set_mmio_ops!(Ops);
