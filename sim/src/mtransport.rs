//! ModelTransport: a direct `impl Transport` in front of the simulated device. Logs every call,
//! resets the device when dropped (as every in-tree transport does), and can be configured as
//! legacy-layout or PCI-like (`queue_unset` is a no-op).

use crate::world::{self, PointKind, TrEv, World, DevQueue, ST_DRIVER_OK};
use virtio_drivers::transport::{DeviceStatus, DeviceType, InterruptStatus, Transport};
use virtio_drivers::{Error, PhysAddr, Result};
use zerocopy::{FromBytes, Immutable, IntoBytes};

pub struct ModelTransport {
    _private: (),
}

impl ModelTransport {
    pub fn new() -> Self {
        ModelTransport { _private: () }
    }
}

pub fn device_type_from(v: u32) -> DeviceType {
    DeviceType::try_from(v).unwrap_or(DeviceType::Block)
}

impl World {
    pub fn t_set_status(&mut self, v: u32) {
        self.ev(0x70, v as u64, 0);
        self.tr_event(TrEv::SetStatus(v));
        if v == 0 {
            self.device_reset();
        } else if self.tr.features_ok_not_latched {
            self.tr.status = v & !crate::world::ST_FEATURES_OK;
        } else {
            self.tr.status = v;
        }
        crate::heapwatch::sync(self);
        self.sched_point(PointKind::Transport);
    }
    pub fn t_get_status(&mut self) -> u32 {
        let v = self.tr.status;
        self.ev(0x71, v as u64, 0);
        self.tr_event(TrEv::GetStatus(v));
        v
    }
    pub fn t_read_features(&mut self) -> u64 {
        let v = self.tr.device_features;
        self.ev(0x72, v, 0);
        self.tr_event(TrEv::ReadFeatures(v));
        self.sched_point(PointKind::Transport);
        v
    }
    pub fn t_write_features(&mut self, v: u64) {
        self.ev(0x73, v, 0);
        self.tr.driver_features = v;
        self.tr_event(TrEv::WriteFeatures(v));
        self.sched_point(PointKind::Transport);
    }
    pub fn t_max_queue_size(&mut self, q: u16) -> u32 {
        let v = self.tr.queues.get(q as usize).map(|r| r.max_size).unwrap_or(0);
        self.ev(0x74, q as u64, v as u64);
        self.tr_event(TrEv::MaxQueueSize(q, v));
        v
    }
    pub fn t_queue_used(&mut self, q: u16) -> bool {
        let v = self
            .tr
            .queues
            .get(q as usize)
            .map(|r| r.ready || r.pretend_used)
            .unwrap_or(false);
        self.ev(0x75, q as u64, v as u64);
        self.tr_event(TrEv::QueueUsed(q, v));
        v
    }
    pub fn t_queue_set(&mut self, q: u16, size: u32, desc: u64, driver: u64, device: u64) {
        self.ev(0x76, q as u64, size as u64);
        self.ev(0x76, desc, driver);
        self.ev(0x76, device, 0);
        self.tr_event(TrEv::QueueSet { q, size, desc, driver, device });
        self.ensure_queues(q as usize + 1, 0);
        let r = &mut self.tr.queues[q as usize];
        r.ready = true;
        r.size = size;
        r.desc = desc;
        r.driver = driver;
        r.device = device;
        self.dq[q as usize] = DevQueue { armed: true, ..Default::default() };
        self.check_queue_registration(q);
        crate::heapwatch::sync(self);
        self.sched_point(PointKind::Transport);
    }
    pub fn t_queue_unset(&mut self, q: u16) {
        self.ev(0x77, q as u64, 0);
        self.tr_event(TrEv::QueueUnset(q));
        if !self.tr.pci_like {
            if let Some(r) = self.tr.queues.get_mut(q as usize) {
                r.ready = false;
                r.size = 0;
                r.desc = 0;
                r.driver = 0;
                r.device = 0;
            }
            if let Some(dq) = self.dq.get_mut(q as usize) {
                *dq = DevQueue::default();
            }
            for s in self.hal.shares.values_mut() {
                if s.posted_on == Some(q) {
                    s.posted_on = None;
                }
            }
        }
        crate::heapwatch::sync(self);
        self.sched_point(PointKind::Transport);
    }
    pub fn t_notify(&mut self, q: u16) {
        self.tr_event(TrEv::Notify(q));
        self.on_notify(q);
        self.sched_point(PointKind::Transport);
    }
    pub fn t_ack_interrupt(&mut self) -> u32 {
        let v = self.tr.isr;
        self.tr.isr = 0;
        self.ev(0x78, v as u64, 0);
        self.tr_event(TrEv::AckInterrupt(v));
        self.sched_point(PointKind::Transport);
        v
    }
    pub fn t_read_gen(&mut self) -> u32 {
        self.sched_point(PointKind::Transport);
        self.config_agent_point();
        let v = self.tr.config_gen;
        self.ev(0x79, v as u64, 0);
        self.tr_event(TrEv::ReadGen(v));
        v
    }
    /// C08 monitor (scenarios that run whole drivers switch it on): a configuration field that
    /// only exists or is only valid under a device feature is not touched unless that feature was
    /// negotiated. Table transcribed from the device sections of the specification (Appendix A).
    fn check_gated_config_field(&mut self, off: usize, len: usize, write: bool) {
        if !self.cfg.gate_config_fields || len == 0 {
            return;
        }
        // (device type, first byte, end, feature bit, field)
        const GATED: &[(u32, usize, usize, u32, &str)] = &[
            (1, 6, 8, 16, "net.status (VIRTIO_NET_F_STATUS)"),
            (1, 8, 10, 22, "net.max_virtqueue_pairs (VIRTIO_NET_F_MQ)"),
            (1, 10, 12, 3, "net.mtu (VIRTIO_NET_F_MTU)"),
            (2, 8, 12, 1, "blk.size_max (VIRTIO_BLK_F_SIZE_MAX)"),
            (2, 12, 16, 2, "blk.seg_max (VIRTIO_BLK_F_SEG_MAX)"),
            (2, 16, 20, 4, "blk.geometry (VIRTIO_BLK_F_GEOMETRY)"),
            (2, 20, 24, 6, "blk.blk_size (VIRTIO_BLK_F_BLK_SIZE)"),
            (2, 24, 32, 10, "blk.topology (VIRTIO_BLK_F_TOPOLOGY)"),
            (2, 32, 33, 11, "blk.writeback (VIRTIO_BLK_F_CONFIG_WCE)"),
            (3, 0, 4, 0, "console.cols/rows (VIRTIO_CONSOLE_F_SIZE)"),
            (3, 4, 8, 1, "console.max_nr_ports (VIRTIO_CONSOLE_F_MULTIPORT)"),
            (3, 8, 12, 2, "console.emerg_wr (VIRTIO_CONSOLE_F_EMERG_WRITE)"),
            (9, 0, 0x10000, 0, "9p.tag_len/tag (VIRTIO_9P_MOUNT_TAG)"),
        ];
        for &(dt, a, b, bit, name) in GATED {
            if dt == self.tr.device_type && off < b && a < off + len && self.tr.driver_features & (1u64 << bit) == 0 {
                self.violation(
                    "config-field-not-negotiated",
                    name.split(' ').next().unwrap_or(name),
                    format!(
                        "{} of configuration bytes {off}..{} touches {name}, but feature bit {bit} was not negotiated (driver features {:#x})",
                        if write { "write" } else { "read" },
                        off + len,
                        self.tr.driver_features
                    ),
                );
                return;
            }
        }
    }

    /// Reads `out.len()` bytes of device configuration at `off`; false if out of bounds.
    pub fn t_read_config(&mut self, off: usize, out: &mut [u8]) -> bool {
        self.sched_point(PointKind::Transport);
        self.config_agent_point();
        self.check_gated_config_field(off, out.len(), false);
        let ok = off.checked_add(out.len()).is_some_and(|e| e <= self.tr.config.len());
        self.ev(0x7a, off as u64, out.len() as u64);
        self.tr_event(TrEv::ReadConfig { off, len: out.len(), ok });
        if ok {
            out.copy_from_slice(&self.tr.config[off..off + out.len()]);
        }
        ok
    }
    pub fn t_write_config(&mut self, off: usize, data: &[u8]) -> bool {
        self.check_gated_config_field(off, data.len(), true);
        let ok = off.checked_add(data.len()).is_some_and(|e| e <= self.tr.config.len());
        self.ev(0x7b, off as u64, data.len() as u64);
        self.tr_event(TrEv::WriteConfig { off, len: data.len(), ok });
        if ok {
            self.tr.config[off..off + data.len()].copy_from_slice(data);
            let mut dev = self.dev.take().expect("personality");
            {
                let mut ctx = world::DevCtx {
                    hal: &mut self.hal,
                    tr: &mut self.tr,
                    tape: &mut self.tape,
                    violations: &mut self.violations,
                    stats: &mut self.stats,
                    tick: self.tick,
                    quiet_mem_faults: self.cfg.hostile,
                };
                dev.on_config_write(off, data.len(), &mut ctx);
            }
            self.dev = Some(dev);
        }
        self.sched_point(PointKind::Transport);
        ok
    }

    /// Always-on sanity of what the driver registered (full check is the C06 scenario).
    fn check_queue_registration(&mut self, q: u16) {
        if !self.cfg.validate {
            return;
        }
        let r = self.tr.queues[q as usize].clone();
        let n = r.size as u64;
        let areas = [
            ("descriptor area", r.desc, 16 * n, 16u64, false),
            ("driver area", r.driver, 6 + 2 * n, 2, false),
            ("device area", r.device, 6 + 8 * n, 4, true),
        ];
        for (name, addr, len, align, dev_writes) in areas {
            if addr % align != 0 {
                self.violation(
                    "queue-area-misaligned",
                    &format!("q{q}/{name}"),
                    format!("{name} at {addr:#x} is not {align}-byte aligned"),
                );
            }
            match self.hal.find_dma(addr, len as usize).cloned() {
                None => self.violation(
                    "queue-area-not-dma",
                    &format!("q{q}/{name}"),
                    format!("{name} {addr:#x}+{len} is not wholly inside one live DMA allocation"),
                ),
                Some(reg) => {
                    if dev_writes && !reg.dir.device_may_write() {
                        let d = reg.dir.name();
                        self.violation(
                            "queue-area-direction",
                            &format!("q{q}/{name}"),
                            format!("{name} lies in DMA memory allocated {d}, which the device may not write"),
                        );
                    }
                    if !dev_writes && reg.dir == world::Dir::DeviceToDriver {
                        self.violation(
                            "queue-area-direction",
                            &format!("q{q}/{name}"),
                            format!("{name} lies in DMA memory allocated DeviceToDriver, which the driver may not write"),
                        );
                    }
                }
            }
        }
        // rings must be zero when the device first sees them
        let n = r.size as u64;
        for (name, addr, len) in [("available ring", r.driver, 6 + 2 * n), ("used ring", r.device, 6 + 8 * n)] {
            let mut buf = vec![0u8; len as usize];
            if self.hal.dev_read(addr, &mut buf).is_ok() && buf.iter().any(|b| *b != 0) {
                self.violation("ring-not-zeroed", &format!("q{q}/{name}"), format!("{name} is not all-zero at registration"));
            }
        }
        if self.tr.status & ST_DRIVER_OK != 0 {
            self.violation(
                "queue-set-after-driver-ok",
                &format!("q{q}"),
                "queue configured after DRIVER_OK".into(),
            );
        }
    }
}

impl Transport for ModelTransport {
    fn device_type(&self) -> DeviceType {
        device_type_from(world::with(|w| w.tr.device_type))
    }
    fn read_device_features(&mut self) -> u64 {
        world::with(|w| w.t_read_features())
    }
    fn write_driver_features(&mut self, driver_features: u64) {
        world::with(|w| w.t_write_features(driver_features))
    }
    fn max_queue_size(&mut self, queue: u16) -> u32 {
        world::with(|w| w.t_max_queue_size(queue))
    }
    fn notify(&mut self, queue: u16) {
        world::with(|w| w.t_notify(queue))
    }
    fn get_status(&self) -> DeviceStatus {
        DeviceStatus::from_bits_retain(world::with(|w| w.t_get_status()))
    }
    fn set_status(&mut self, status: DeviceStatus) {
        world::with(|w| w.t_set_status(status.bits()))
    }
    fn set_guest_page_size(&mut self, guest_page_size: u32) {
        world::with(|w| {
            w.tr.guest_page_size = guest_page_size;
            w.tr_event(TrEv::SetGuestPageSize(guest_page_size));
        })
    }
    fn requires_legacy_layout(&self) -> bool {
        world::with(|w| w.tr.legacy)
    }
    fn queue_set(&mut self, queue: u16, size: u32, descriptors: PhysAddr, driver_area: PhysAddr, device_area: PhysAddr) {
        world::with(|w| w.t_queue_set(queue, size, descriptors, driver_area, device_area))
    }
    fn queue_unset(&mut self, queue: u16) {
        world::with(|w| w.t_queue_unset(queue))
    }
    fn queue_used(&mut self, queue: u16) -> bool {
        world::with(|w| w.t_queue_used(queue))
    }
    fn ack_interrupt(&mut self) -> InterruptStatus {
        InterruptStatus::from_bits_truncate(world::with(|w| w.t_ack_interrupt()))
    }
    fn read_config_generation(&self) -> u32 {
        world::with(|w| w.t_read_gen())
    }
    fn read_config_space<T: FromBytes + IntoBytes>(&self, offset: usize) -> Result<T> {
        let mut buf = vec![0u8; size_of::<T>()];
        let (has, ok) = world::with(|w| {
            if !w.tr.has_config {
                (false, false)
            } else {
                (true, w.t_read_config(offset, &mut buf))
            }
        });
        if !has {
            return Err(Error::ConfigSpaceMissing);
        }
        if !ok {
            return Err(Error::ConfigSpaceTooSmall);
        }
        Ok(T::read_from_bytes(&buf).unwrap())
    }
    fn write_config_space<T: IntoBytes + Immutable>(&mut self, offset: usize, value: T) -> Result<()> {
        let bytes = value.as_bytes().to_vec();
        let (has, ok) = world::with(|w| {
            if !w.tr.has_config {
                (false, false)
            } else {
                (true, w.t_write_config(offset, &bytes))
            }
        });
        if !has {
            return Err(Error::ConfigSpaceMissing);
        }
        if !ok {
            return Err(Error::ConfigSpaceTooSmall);
        }
        Ok(())
    }
}

impl Drop for ModelTransport {
    fn drop(&mut self) {
        if world::installed() {
            world::with(|w| {
                w.tr_event(TrEv::Dropped);
                if !(w.tr.no_reset_on_drop && !w.tr.pci_like) {
                    w.t_set_status(0);
                }
            });
        }
    }
}
