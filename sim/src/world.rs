//! The simulated world: one per run, thread-local. Owns the PRNG tape, the simulated platform
//! (Hal state + ledger), the device-side view of the transport (status, features, queue
//! registration, interrupt status, configuration space), the device-side virtqueue state, the
//! device personality and the scheduler. Everything the driver can reach goes through here.

use crate::rng::Tape;
use std::cell::RefCell;
use std::collections::{BTreeMap, BTreeSet};

pub const PAGE: u64 = 4096;

#[derive(Copy, Clone, Debug, PartialEq, Eq, PartialOrd, Ord)]
pub enum Dir {
    DriverToDevice,
    DeviceToDriver,
    Both,
}

impl Dir {
    pub fn device_may_write(self) -> bool {
        !matches!(self, Dir::DriverToDevice)
    }
    pub fn name(self) -> &'static str {
        match self {
            Dir::DriverToDevice => "DriverToDevice",
            Dir::DeviceToDriver => "DeviceToDriver",
            Dir::Both => "Both",
        }
    }
}

#[derive(Clone, Debug)]
pub struct Violation {
    /// Class of the violation, e.g. `chain-malformed`.
    pub class: String,
    /// Where (queue, call, oracle site); no addresses, so that it is stable across runs.
    pub site: String,
    /// Free text with the concrete values.
    pub msg: String,
    pub tick: u64,
}

impl Violation {
    pub fn key(&self) -> String {
        format!("{}@{}", self.class, self.site)
    }
}

// ---------------------------------------------------------------------------------------------
// Hal state

#[derive(Clone, Debug)]
pub struct DmaRegion {
    pub paddr: u64,
    pub vaddr: usize,
    pub pages: usize,
    pub dir: Dir,
    pub ap: bool,
    pub seq: u64,
}

impl DmaRegion {
    pub fn len(&self) -> u64 {
        self.pages as u64 * PAGE
    }
}

#[derive(Clone, Debug)]
pub struct Share {
    pub paddr: u64,
    pub ptr: usize,
    pub len: usize,
    pub dir: Dir,
    pub ap: bool,
    /// Some: the device only sees this bounce copy; None: the device address maps directly onto
    /// the caller's buffer (in-place sharing, e.g. identity-mapped platforms).
    pub bounce: Option<Vec<u8>>,
    pub seq: u64,
    /// Set while a chain that references this share is in flight on a queue (published, not yet
    /// completed by the device).
    pub posted_on: Option<u16>,
    /// Queue on which this share was last published (stays set after completion).
    pub last_queue: Option<u16>,
    /// Device wrote to the bounce buffer.
    pub dev_wrote: bool,
}

#[derive(Clone, Debug, PartialEq, Eq)]
pub enum HalEv {
    Alloc {
        paddr: u64,
        vaddr: usize,
        pages: usize,
        dir: Dir,
        ap: bool,
        failed: bool,
    },
    Dealloc {
        paddr: u64,
        vaddr: usize,
        pages: usize,
        ap: bool,
        ok: bool,
    },
    Share {
        paddr: u64,
        ptr: usize,
        len: usize,
        dir: Dir,
        ap: bool,
    },
    Unshare {
        paddr: u64,
        ptr: usize,
        len: usize,
        dir: Dir,
        ap: bool,
        ok: bool,
    },
    MmioMap {
        paddr: u64,
        size: usize,
    },
}

#[derive(Debug)]
pub struct MemFault {
    pub paddr: u64,
    pub len: usize,
    pub why: &'static str,
}

pub struct HalState {
    pub dma: BTreeMap<u64, DmaRegion>,
    pub shares: BTreeMap<u64, Share>,
    pub next_dma: u64,
    pub next_share: u64,
    pub seq: u64,
    /// Number of `dma_alloc` calls so far (including failed ones).
    pub alloc_calls: u64,
    /// Make the k-th (1-based) `dma_alloc` call fail.
    pub fail_alloc_at: Option<u64>,
    pub capture: Option<Vec<HalEv>>,
    pub n_share: u64,
    pub n_unshare: u64,
    pub n_alloc: u64,
    pub n_dealloc: u64,
    /// Recently retired DMA ranges (paddr, len), for diagnostics of device use-after-free.
    pub retired_dma: Vec<(u64, u64)>,
    pub mmio_maps: Vec<(u64, usize)>,
    /// DMA memory the device currently relies on (e.g. GPU resource backing): start -> (len, why).
    pub pinned: BTreeMap<u64, (u64, &'static str)>,
    pub pin_check: bool,
    /// false: buffers are shared in place (no bounce copy)
    pub bounce: bool,
    /// Base for the fake MMIO virtual window handed out by `mmio_phys_to_virt`.
    pub mmio_virt_of: Option<fn(u64, usize) -> usize>,
}

impl HalState {
    fn new() -> Self {
        HalState {
            dma: BTreeMap::new(),
            shares: BTreeMap::new(),
            // Above 4 GiB so that the high words of 64-bit addresses matter; below 2^44 so a
            // legacy page frame number still fits in 32 bits.
            next_dma: 0x1_4000_0000,
            next_share: 0x9_0000_0000,
            seq: 0,
            alloc_calls: 0,
            fail_alloc_at: None,
            capture: None,
            n_share: 0,
            n_unshare: 0,
            n_alloc: 0,
            n_dealloc: 0,
            retired_dma: Vec::new(),
            mmio_maps: Vec::new(),
            pinned: BTreeMap::new(),
            pin_check: true,
            bounce: true,
            mmio_virt_of: None,
        }
    }

    pub fn find_dma(&self, paddr: u64, len: usize) -> Option<&DmaRegion> {
        let (_, r) = self.dma.range(..=paddr).next_back()?;
        if paddr >= r.paddr && paddr + len as u64 <= r.paddr + r.len() {
            Some(r)
        } else {
            None
        }
    }

    pub fn find_share(&self, paddr: u64, len: usize) -> Option<&Share> {
        let (_, s) = self.shares.range(..=paddr).next_back()?;
        if paddr >= s.paddr && paddr + len as u64 <= s.paddr + s.len as u64 {
            Some(s)
        } else {
            None
        }
    }

    fn find_share_mut(&mut self, paddr: u64, len: usize) -> Option<&mut Share> {
        let (_, s) = self.shares.range_mut(..=paddr).next_back()?;
        if paddr >= s.paddr && paddr + len as u64 <= s.paddr + s.len as u64 {
            Some(s)
        } else {
            None
        }
    }

    /// Device-side read of guest memory.
    pub fn dev_read(&self, paddr: u64, out: &mut [u8]) -> Result<(), MemFault> {
        let len = out.len();
        if len == 0 {
            return Ok(());
        }
        if paddr.checked_add(len as u64).is_none() {
            return Err(MemFault {
                paddr,
                len,
                why: "address range wraps",
            });
        }
        if let Some(r) = self.find_dma(paddr, len) {
            let off = (paddr - r.paddr) as usize;
            // SAFETY: region is live (owned by the ledger until dma_dealloc) and the range was
            // bounds-checked above.
            unsafe {
                std::ptr::copy_nonoverlapping((r.vaddr + off) as *const u8, out.as_mut_ptr(), len);
            }
            return Ok(());
        }
        if let Some(s) = self.find_share(paddr, len) {
            let off = (paddr - s.paddr) as usize;
            if s.bounce.is_none() && crate::heapwatch::freed_while_posted(s.ptr, s.len) {
                return Err(MemFault { paddr, len, why: "device access (in place) to a buffer that was freed while it was still posted" });
            }
            match &s.bounce {
                Some(b) => out.copy_from_slice(&b[off..off + len]),
                // SAFETY: the caller of `add` guarantees the buffer stays valid while shared.
                None => unsafe { std::ptr::copy_nonoverlapping((s.ptr + off) as *const u8, out.as_mut_ptr(), len) },
            }
            return Ok(());
        }
        Err(MemFault {
            paddr,
            len,
            why: "device read of an address that is neither live DMA memory nor a live share",
        })
    }

    /// Device-side write of guest memory.
    pub fn dev_write(&mut self, paddr: u64, data: &[u8]) -> Result<(), MemFault> {
        let len = data.len();
        if len == 0 {
            return Ok(());
        }
        if paddr.checked_add(len as u64).is_none() {
            return Err(MemFault {
                paddr,
                len,
                why: "address range wraps",
            });
        }
        if let Some(r) = self.find_dma(paddr, len) {
            if !r.dir.device_may_write() {
                return Err(MemFault {
                    paddr,
                    len,
                    why: "device write into DMA memory allocated DriverToDevice",
                });
            }
            let off = (paddr - r.paddr) as usize;
            // SAFETY: as in dev_read.
            unsafe {
                std::ptr::copy_nonoverlapping(data.as_ptr(), (r.vaddr + off) as *mut u8, len);
            }
            return Ok(());
        }
        if let Some(s) = self.find_share_mut(paddr, len) {
            if !s.dir.device_may_write() {
                return Err(MemFault {
                    paddr,
                    len,
                    why: "device write into a buffer shared DriverToDevice",
                });
            }
            let off = (paddr - s.paddr) as usize;
            if s.bounce.is_none() && crate::heapwatch::freed_while_posted(s.ptr, s.len) {
                return Err(MemFault { paddr, len, why: "device access (in place) to a buffer that was freed while it was still posted" });
            }
            match &mut s.bounce {
                Some(b) => b[off..off + len].copy_from_slice(data),
                // SAFETY: as above.
                None => unsafe { std::ptr::copy_nonoverlapping(data.as_ptr(), (s.ptr + off) as *mut u8, len) },
            }
            s.dev_wrote = true;
            return Ok(());
        }
        Err(MemFault {
            paddr,
            len,
            why: "device write to an address that is neither live DMA memory nor a live share",
        })
    }

    /// Device-side write that ignores direction (used only by the hostile "scribble" fault, which
    /// models a device overwriting areas it must not write).
    pub fn dev_scribble(&mut self, paddr: u64, data: &[u8]) -> bool {
        let len = data.len();
        if let Some(r) = self.find_dma(paddr, len) {
            let off = (paddr - r.paddr) as usize;
            // SAFETY: as in dev_read.
            unsafe {
                std::ptr::copy_nonoverlapping(data.as_ptr(), (r.vaddr + off) as *mut u8, len);
            }
            return true;
        }
        false
    }

    pub fn read_u16(&self, paddr: u64) -> Result<u16, MemFault> {
        let mut b = [0u8; 2];
        self.dev_read(paddr, &mut b)?;
        Ok(u16::from_le_bytes(b))
    }
    pub fn read_u32(&self, paddr: u64) -> Result<u32, MemFault> {
        let mut b = [0u8; 4];
        self.dev_read(paddr, &mut b)?;
        Ok(u32::from_le_bytes(b))
    }
    pub fn read_u64(&self, paddr: u64) -> Result<u64, MemFault> {
        let mut b = [0u8; 8];
        self.dev_read(paddr, &mut b)?;
        Ok(u64::from_le_bytes(b))
    }

    pub fn live_dma_pages(&self) -> usize {
        self.dma.values().map(|r| r.pages).sum()
    }
}

// ---------------------------------------------------------------------------------------------
// Transport-level device state

#[derive(Clone, Debug, PartialEq, Eq)]
pub enum TrEv {
    SetStatus(u32),
    GetStatus(u32),
    ReadFeatures(u64),
    WriteFeatures(u64),
    MaxQueueSize(u16, u32),
    QueueUsed(u16, bool),
    QueueSet {
        q: u16,
        size: u32,
        desc: u64,
        driver: u64,
        device: u64,
    },
    QueueUnset(u16),
    Notify(u16),
    AckInterrupt(u32),
    ReadConfig {
        off: usize,
        len: usize,
        ok: bool,
    },
    WriteConfig {
        off: usize,
        len: usize,
        ok: bool,
    },
    ReadGen(u32),
    SetGuestPageSize(u32),
    /// The transport object was dropped (its Drop resets the device).
    Dropped,
}

#[derive(Clone, Debug, Default)]
pub struct QueueReg {
    pub max_size: u32,
    pub ready: bool,
    pub size: u32,
    pub desc: u64,
    pub driver: u64,
    pub device: u64,
    /// Answer `queue_used` = true even though never set (C06 refusal case).
    pub pretend_used: bool,
}

pub const ST_ACK: u32 = 1;
pub const ST_DRIVER: u32 = 2;
pub const ST_DRIVER_OK: u32 = 4;
pub const ST_FEATURES_OK: u32 = 8;

pub const F_INDIRECT: u64 = 1 << 28;
pub const F_EVENT_IDX: u64 = 1 << 29;
pub const F_VERSION_1: u64 = 1 << 32;
pub const F_ACCESS_PLATFORM: u64 = 1 << 33;

pub struct TrState {
    pub device_type: u32,
    pub device_features: u64,
    pub driver_features: u64,
    pub status: u32,
    pub legacy: bool,
    /// `queue_unset` is a no-op (as in the PCI transport).
    pub pci_like: bool,
    pub queues: Vec<QueueReg>,
    pub isr: u32,
    pub config_gen: u32,
    pub config: Vec<u8>,
    /// None = device has no configuration space at all.
    pub has_config: bool,
    pub guest_page_size: u32,
    pub capture: Option<Vec<TrEv>>,
    pub resets: u64,
    pub notifies: u64,
    /// Number of notify events that arrived while DRIVER_OK was not set.
    pub notify_before_driver_ok: u64,
    /// Fault: the device does not latch FEATURES_OK (it reads back clear), as a device does that
    /// cannot work with the feature subset it was given.
    pub features_ok_not_latched: bool,
    /// The (model) transport does not reset the device when it is dropped - the trait does not
    /// promise that; the library's own test transport behaves like this. Queues then stay live
    /// until the driver disables them.
    pub no_reset_on_drop: bool,
}

impl TrState {
    fn new() -> Self {
        TrState {
            device_type: 0,
            device_features: 0,
            driver_features: 0,
            status: 0,
            legacy: false,
            pci_like: false,
            features_ok_not_latched: false,
            no_reset_on_drop: false,
            queues: Vec::new(),
            isr: 0,
            config_gen: 0,
            config: Vec::new(),
            has_config: true,
            guest_page_size: 0,
            capture: None,
            resets: 0,
            notifies: 0,
            notify_before_driver_ok: 0,
        }
    }
    pub fn negotiated(&self, bit: u64) -> bool {
        self.driver_features & bit != 0
    }
    pub fn live(&self, q: u16) -> bool {
        self.status & ST_DRIVER_OK != 0
            && self.queues.get(q as usize).is_some_and(|r| r.ready)
    }
}

// ---------------------------------------------------------------------------------------------
// Device-side virtqueue state

#[derive(Clone, Debug, PartialEq, Eq)]
pub struct Elem {
    pub addr: u64,
    pub len: u32,
    pub write: bool,
}

#[derive(Clone, Debug)]
pub struct Chain {
    pub head: u16,
    pub elems: Vec<Elem>,
    /// Descriptor-table indices used by this chain (for an indirect chain: just the head).
    pub descs: Vec<u16>,
    /// (address, length in bytes) of the indirect table, if any.
    pub indirect: Option<(u64, u32)>,
    /// Available index (free-running) under which the chain was published.
    pub avail_pos: u16,
    /// Monotonic sequence number per queue.
    pub seq: u64,
}

impl Chain {
    pub fn readable_len(&self) -> usize {
        self.elems.iter().filter(|e| !e.write).map(|e| e.len as usize).sum()
    }
    pub fn writable_len(&self) -> usize {
        self.elems.iter().filter(|e| e.write).map(|e| e.len as usize).sum()
    }
}

#[derive(Default)]
pub struct DevQueue {
    /// Next available index the device will fetch.
    pub last_avail: u16,
    /// Next available index the C02 observer has validated up to.
    pub validated_avail: u16,
    pub used_idx: u16,
    pub pending: Vec<Chain>,
    pub notified: bool,
    /// Device waits for a notification (NotifyOnly policy).
    pub armed: bool,
    pub recheck: bool,
    /// descriptor index -> head of in-flight chain owning it
    pub desc_owner: BTreeMap<u16, u16>,
    /// ring slot -> head of in-flight chain published in it
    pub slot_owner: BTreeMap<u16, u16>,
    /// chains validated by the observer but not yet fetched (head, parsed)
    pub observed: Vec<Chain>,
    pub seq: u64,
    pub completed: u64,
    pub interrupts: u64,
    /// Completions for which the device decided not to interrupt.
    pub interrupts_suppressed: u64,
    /// Total chains fetched.
    pub fetched: u64,
    /// Used elements the device wrote, in order, not yet consumed by the scenario's model.
    pub used_fifo: std::collections::VecDeque<(u32, u32)>,
    /// The last few validated chains (for scenario-side comparison with the caller's buffers).
    pub recent: std::collections::VecDeque<Chain>,
    /// Number of completions the caller has consumed (maintained by scenarios that model it).
    pub consumed: Option<u16>,
    /// The device has written its permanent suppression setting (Poll policy).
    pub poll_flag_written: bool,
    /// Available index as announced by the driver's last index store (used instead of memory
    /// when the device itself scribbles over the available ring).
    pub hook_idx: Option<u16>,
    /// ids the hostile device has reported so far (for repeats)
    pub reported_ids: Vec<u32>,
}

#[derive(Copy, Clone, Debug, PartialEq, Eq)]
pub enum ServePolicy {
    /// Looks at the available ring only after a notification (and then until it runs dry).
    NotifyOnly,
    /// Looks at the available ring whenever it runs.
    Poll,
}

#[derive(Copy, Clone, Debug, PartialEq, Eq)]
pub enum Suppress {
    /// Never suppresses notifications.
    Never,
    /// Suppresses while busy (flag or event index, depending on what was negotiated).
    WhileBusy,
}

#[derive(Clone, Debug)]
pub struct WorldCfg {
    pub serve: ServePolicy,
    pub suppress: Suppress,
    /// Device runs by itself at scheduling points (false: only when the scenario says so).
    pub device_active: bool,
    /// Maximum number of device steps at one scheduling point.
    pub max_steps: u64,
    /// Out of 8: how often a non-spin scheduling point runs the device at all.
    pub step_eighths: u64,
    /// Completes chains strictly in submission order.
    pub in_order: bool,
    /// Maximum number of consecutive spin iterations the device may stay passive although it has
    /// work (a delay fault); after that it is forced to take a step.
    pub max_delay: u32,
    /// Always-on validation of published chains (off only for hostile scribbling runs).
    pub validate: bool,
    /// Abort the run (unwind out of the driver) when a spin loop can never end.
    pub spin_idle_limit: u32,
    /// Hard cap on spin iterations in one run (harness error beyond it).
    pub spin_hard_limit: u64,
    /// Run device steps at store points.
    pub step_at_stores: bool,
    /// Report heap blocks freed while they are posted to a live queue (C09 monitor).
    pub heap_watch: bool,
    /// Hostile device: used-ring ids may be wrong (not outstanding, repeated, out of range),
    /// lengths arbitrary, the used index may jump forwards or backwards.
    pub hostile: bool,
    /// Misbehaving device that overwrites the descriptor table and the available ring (areas it
    /// must not write) at operation boundaries, while itself working from private snapshots.
    pub scribble: bool,
    /// Fault: heap allocations of indirect descriptor tables sometimes fail (the global allocator
    /// returns null for exactly that zero-initialised allocation).
    pub heap_faults: bool,
    /// Judge accesses to feature-gated configuration fields (C08; only in scenarios where every
    /// configuration access is a driver's own).
    pub gate_config_fields: bool,
}

impl Default for WorldCfg {
    fn default() -> Self {
        WorldCfg {
            serve: ServePolicy::NotifyOnly,
            suppress: Suppress::Never,
            device_active: true,
            max_steps: 3,
            step_eighths: 4,
            in_order: false,
            max_delay: 3,
            validate: true,
            spin_idle_limit: 4,
            spin_hard_limit: 50_000_000,
            step_at_stores: true,
            heap_watch: true,
            hostile: false,
            scribble: false,
            heap_faults: false,
            gate_config_fields: false,
        }
    }
}

/// What a device personality sees of the world while it serves a chain.
pub struct DevCtx<'a> {
    pub hal: &'a mut HalState,
    pub tr: &'a mut TrState,
    pub tape: &'a mut Tape,
    pub violations: &'a mut Vec<Violation>,
    pub stats: &'a mut Stats,
    pub tick: u64,
    /// hostile device: its own accesses to buffers the driver already took back are not judged
    pub quiet_mem_faults: bool,
}

impl DevCtx<'_> {
    pub fn violation(&mut self, class: &str, site: &str, msg: String) {
        push_violation(self.violations, class, site, msg, self.tick);
    }
    /// Concatenation of all device-readable parts.
    pub fn read_in(&mut self, chain: &Chain) -> Vec<u8> {
        let mut v = Vec::with_capacity(chain.readable_len());
        for e in chain.elems.iter().filter(|e| !e.write) {
            let start = v.len();
            v.resize(start + e.len as usize, 0);
            if let Err(f) = self.hal.dev_read(e.addr, &mut v[start..]) {
                if !self.quiet_mem_faults {
                    let m = format!("{} (addr {:#x} len {})", f.why, f.paddr, f.len);
                    self.violation("device-mem-fault", "read_in", m);
                }
            }
        }
        v
    }
    /// Scatters `data` over the device-writable parts; returns the number of bytes written.
    pub fn write_out(&mut self, chain: &Chain, data: &[u8]) -> usize {
        self.write_out_at(chain, 0, data)
    }
    /// Scatters `data` over the device-writable parts starting `skip` bytes into them.
    pub fn write_out_at(&mut self, chain: &Chain, mut skip: usize, data: &[u8]) -> usize {
        let mut rest = data;
        let mut written = 0;
        for e in chain.elems.iter().filter(|e| e.write) {
            if rest.is_empty() {
                break;
            }
            let elen = e.len as usize;
            if skip >= elen {
                skip -= elen;
                continue;
            }
            let n = rest.len().min(elen - skip);
            if let Err(f) = self.hal.dev_write(e.addr + skip as u64, &rest[..n]) {
                if !self.quiet_mem_faults {
                    let m = format!("{} (addr {:#x} len {})", f.why, f.paddr, f.len);
                    self.violation("device-mem-fault", "write_out", m);
                }
            }
            skip = 0;
            rest = &rest[n..];
            written += n;
        }
        written
    }
    pub fn fault(&mut self, name: &'static str) {
        *self.stats.faults.entry(name).or_insert(0) += 1;
    }
    pub fn probe(&mut self, name: &'static str) {
        *self.stats.probes.entry(name).or_insert(0) += 1;
    }
}

/// A device personality: decides what to do with a chain. Also an oracle for the request format.
pub trait Personality: std::any::Any {
    /// Whether the chain can be completed now (e.g. a receive buffer is only completable once
    /// there is data to deliver).
    fn completable(&self, _q: u16, _chain: &Chain) -> bool {
        true
    }
    /// Serves the chain: reads the readable parts, writes the writable parts, returns the used
    /// length to report.
    fn complete(&mut self, q: u16, chain: &Chain, ctx: &mut DevCtx) -> u32;
    fn on_reset(&mut self) {}
    /// The driver busy-waits and the device has nothing to do: a personality that rations its
    /// completions may decide to act after all (returns true if it now has something to do).
    fn on_idle_spin(&mut self) -> bool {
        false
    }
    /// A new chain became visible to the device on queue `q` (called by the observer).
    fn on_published(&mut self, _q: u16, _chain: &Chain, _ctx: &mut DevCtx) {}
    /// The driver wrote `len` bytes at `off` of the configuration space.
    fn on_config_write(&mut self, _off: usize, _len: usize, _ctx: &mut DevCtx) {}
    fn as_any(&mut self) -> &mut dyn std::any::Any;
}

/// Default personality: accepts any chain, writes a position-identifying pattern into the
/// writable parts and reports a length chosen by the tape (0..=writable length).
pub struct PatternDevice {
    pub full_len: bool,
    /// Fault: sometimes report a used length that is not the number of bytes written
    /// (0, one more than the writable size, 65536, 2^32-1, ...).
    pub lie_len: bool,
    /// chain seq -> (hash of the readable bytes the device saw, their length, reported used
    /// length, bytes actually written)
    pub seen: BTreeMap<(u16, u64), (u64, usize, u32, u32)>,
}

pub fn hash_bytes(b: &[u8]) -> u64 {
    let mut h = 0xcbf2_9ce4_8422_2325u64;
    for x in b {
        h ^= *x as u64;
        h = h.wrapping_mul(0x0000_0100_0000_01B3);
    }
    h
}

impl Personality for PatternDevice {
    fn complete(&mut self, q: u16, chain: &Chain, ctx: &mut DevCtx) -> u32 {
        let input = ctx.read_in(chain);
        let wl = chain.writable_len();
        let n = if self.full_len || wl == 0 {
            wl
        } else {
            ctx.tape.choose(wl as u64 + 1) as usize
        };
        let data: Vec<u8> = (0..n).map(|i| pattern_byte(chain.seq, i)).collect();
        ctx.write_out(chain, &data);
        let mut reported = n as u32;
        if self.lie_len && ctx.tape.choose(4) == 1 {
            reported = match ctx.tape.choose(5) {
                0 => wl as u32 + 1,
                1 => 0x1_0000,
                2 => u32::MAX,
                3 => 0,
                _ => ctx.tape.choose(u32::MAX as u64) as u32,
            };
            ctx.fault("used_len_lie");
        }
        if self.seen.len() < 100_000 {
            self.seen.insert((q, chain.seq), (hash_bytes(&input), input.len(), reported, n as u32));
        }
        reported
    }
    fn on_reset(&mut self) {
        self.seen.clear();
    }
    fn as_any(&mut self) -> &mut dyn std::any::Any {
        self
    }
}

pub fn pattern_byte(seq: u64, i: usize) -> u8 {
    (seq.wrapping_mul(131).wrapping_add(i as u64 * 7).wrapping_add(0x5a)) as u8
}

#[derive(Default, Clone, Debug)]
pub struct Stats {
    pub faults: BTreeMap<&'static str, u64>,
    pub probes: BTreeMap<&'static str, u64>,
    pub ticks: u64,
    pub device_steps: u64,
    pub spins: u64,
    pub ops: u64,
    pub states: BTreeSet<u64>,
}

#[derive(Copy, Clone, Debug, PartialEq, Eq)]
pub enum PointKind {
    Transport,
    Store,
    Spin,
    Op,
}

pub struct World {
    pub tape: Tape,
    pub cfg: WorldCfg,
    pub tick: u64,
    pub log_hash: u64,
    pub trace: Option<Vec<String>>,
    pub hal: HalState,
    pub tr: TrState,
    pub bus: crate::mmio::MmioBus,
    pub dq: Vec<DevQueue>,
    pub dev: Option<Box<dyn Personality>>,
    pub violations: Vec<Violation>,
    pub stats: Stats,
    /// Consecutive spin iterations during which the device could not do anything.
    pub idle_spins: u32,
    /// consecutive `can_pop() == false` with no other driver activity in between
    pub poll_empty_run: u32,
    /// Consecutive spin iterations the device stayed passive although it could progress.
    pub delayed_spins: u32,
    pub nontrivial: bool,
    /// Scenario-visible flag: the run should stop at the next safe point.
    pub stop: bool,
    /// Hook for register-level devices: called on scheduling points of kind Transport is done by
    /// the device itself.
    pub in_device: bool,
    /// Harness errors (not property violations): reported with exit 2.
    pub harness_errors: Vec<String>,
    /// Samples: a short human-readable operation log kept by scenarios.
    pub oplog: Vec<String>,
    pub oplog_cap: usize,
    /// Self-check of the hook placement: (queue, snapshot of descriptor table + available ring).
    /// Every byte that changes must be explained by the store hook that just fired.
    pub store_audit: Option<(u16, Vec<u8>)>,
    /// Quiet phase (fast-forward of long runs): scheduling points do not draw from the tape and do
    /// not run the device; explicit device steps take the first enabled action.
    pub quiet: bool,
    /// Set by the bare-queue scenario around `add`: (queue, available index already stored).
    pub add_guard: Option<(u16, bool)>,
    /// Number of store events so far.
    pub store_events: u64,
    /// ... by kind (descriptor, ring slot, available index, used_event, avail.flags)
    pub store_kinds: [u64; 5],
    /// Configuration versions the config agent may still install (C13), front first.
    pub cfg_versions: Vec<Vec<u8>>,
    /// the configuration agent switches at two accesses in three instead of one in three
    pub cfg_agent_eager: bool,
    /// Every configuration version the device has exposed so far (including the initial one).
    pub cfg_exposed: Vec<Vec<u8>>,
}

thread_local! {
    static CLASS_FILTER: std::cell::Cell<&'static [&'static str]> = const { std::cell::Cell::new(&[]) };
}

/// Restricts the violation classes recorded on this thread (empty = all); see `runner::Batch`.
pub fn set_class_filter(classes: &'static [&'static str]) {
    CLASS_FILTER.with(|c| c.set(classes));
}

pub fn class_judged(class: &str) -> bool {
    let f = CLASS_FILTER.with(|c| c.get());
    f.is_empty() || f.contains(&class)
}

pub fn push_violation(v: &mut Vec<Violation>, class: &str, site: &str, msg: String, tick: u64) {
    if !class_judged(class) {
        return;
    }
    if v.len() < 8 {
        v.push(Violation {
            class: class.to_string(),
            site: site.to_string(),
            msg,
            tick,
        });
    }
}

thread_local! {
    static WORLD: RefCell<Option<World>> = const { RefCell::new(None) };
}

/// Private panic payload used to unwind out of a driver busy-wait that can never end (or after a
/// violation has been recorded and continuing would hang).
pub struct AbortRun(pub &'static str);

pub fn install(w: World) {
    WORLD.with(|c| *c.borrow_mut() = Some(w));
}

pub fn uninstall() -> Option<World> {
    WORLD.with(|c| c.borrow_mut().take())
}

pub fn installed() -> bool {
    WORLD.with(|c| c.try_borrow().map(|w| w.is_some()).unwrap_or(true))
}

/// Is harness code running right now (inside `with`: a hook, a platform or transport call, a
/// device step)? Used by the allocator wrapper so that injected allocation failures only ever
/// hit allocations made by the code under test. Does not allocate.
pub fn in_harness() -> bool {
    WORLD.try_with(|c| c.try_borrow_mut().is_err()).unwrap_or(true)
}

/// Runs `f` with the world. Panics (harness error) on re-entrancy.
pub fn with<R>(f: impl FnOnce(&mut World) -> R) -> R {
    WORLD.with(|c| {
        let mut b = c.try_borrow_mut().expect("world re-entered");
        let w = b.as_mut().expect("no world installed on this thread");
        f(w)
    })
}

// Convenience free functions for scenarios.
pub fn choose(n: u64) -> u64 {
    with(|w| w.tape.choose(n))
}
/// Value in lo..=hi.
pub fn range(lo: u64, hi: u64) -> u64 {
    lo + choose(hi - lo + 1)
}
pub fn flip(num: u64, den: u64) -> bool {
    choose(den) < num
}
pub fn violation(class: &str, site: &str, msg: String) {
    with(|w| w.violation(class, site, msg));
}
/// After a driver whose operations all completed has been dropped: nothing may still be shared
/// with the device ("unshared once when its completion is consumed").
pub fn check_nothing_shared(site: &str, request_queues: &[u16]) {
    with(|w| {
        if !w.violations.is_empty() || w.stop {
            return;
        }
        // Buffers the driver keeps stocked on event/receive queues, and anything the device has
        // not completed, are still legitimately shared; a buffer of a request queue whose chain
        // the device completed has had its completion consumed (the calls are blocking).
        let leaked: Vec<String> = w
            .hal
            .shares
            .values()
            .filter(|s| s.posted_on.is_none() && s.last_queue.is_none_or(|q| request_queues.contains(&q)))
            .map(|s| format!("paddr {:#x} len {} {:?} (last published on queue {:?})", s.paddr, s.len, s.dir, s.last_queue))
            .collect();
        if let Some(first) = leaked.first() {
            let n = leaked.len();
            w.violation("share-leaked", site, format!("{n} buffer(s) still shared with the device after every request completed and the driver was dropped; first: {first}"));
        }
    });
}

pub fn violated() -> bool {
    with(|w| !w.violations.is_empty() || w.stop)
}
pub fn probe(name: &'static str) {
    with(|w| *w.stats.probes.entry(name).or_insert(0) += 1);
}
pub fn fault(name: &'static str) {
    with(|w| *w.stats.faults.entry(name).or_insert(0) += 1);
}
pub fn nontrivial() {
    with(|w| w.nontrivial = true);
}
pub fn oplog(s: impl FnOnce() -> String) {
    if with(|w| w.oplog.len() < w.oplog_cap) {
        let t = s();
        with(|w| w.oplog.push(t));
    }
}
/// Scheduling point between two workload operations.
thread_local! {
    /// See `World::sched_point`: wall-clock limit of a shrink candidate (never set otherwise).
    pub static ABANDON_AT: std::cell::Cell<Option<std::time::Instant>> = const { std::cell::Cell::new(None) };
}

pub fn op_point() {
    with(|w| {
        w.stats.ops += 1;
        w.sched_point(PointKind::Op)
    });
}

impl World {
    pub fn new(tape: Tape, cfg: WorldCfg) -> World {
        World {
            tape,
            cfg,
            tick: 0,
            log_hash: 0xcbf2_9ce4_8422_2325,
            trace: None,
            hal: HalState::new(),
            tr: TrState::new(),
            bus: Default::default(),
            dq: Vec::new(),
            dev: Some(Box::new(PatternDevice { full_len: false, lie_len: false, seen: BTreeMap::new() })),
            violations: Vec::new(),
            stats: Stats::default(),
            idle_spins: 0,
            poll_empty_run: 0,
            delayed_spins: 0,
            nontrivial: false,
            stop: false,
            in_device: false,
            harness_errors: Vec::new(),
            oplog: Vec::new(),
            oplog_cap: 64,
            store_audit: None,
            quiet: false,
            add_guard: None,
            store_events: 0,
            store_kinds: [0; 5],
            cfg_versions: Vec::new(),
            cfg_agent_eager: false,
            cfg_exposed: Vec::new(),
        }
    }

    pub fn violation(&mut self, class: &str, site: &str, msg: String) {
        self.ev(0xEE, self.violations.len() as u64, 0);
        if let Some(t) = &mut self.trace {
            t.push(format!("[{}] VIOLATION {class}@{site}: {msg}", self.tick));
        }
        push_violation(&mut self.violations, class, site, msg, self.tick);
    }

    /// Appends an event to the (hashed) event log. Never pass host pointers here.
    pub fn ev(&mut self, kind: u8, a: u64, b: u64) {
        let mut h = self.log_hash;
        for x in [kind as u64, a, b] {
            h ^= x;
            h = h.wrapping_mul(0x0000_0100_0000_01B3);
            h ^= h >> 29;
        }
        self.log_hash = h;
    }

    pub fn tr_event(&mut self, e: TrEv) {
        if let Some(t) = &mut self.trace {
            if t.len() < 100_000 {
                t.push(format!("[{}] transport {:?}", self.tick, e));
            }
        }
        if let Some(c) = &mut self.tr.capture {
            c.push(e);
        }
    }

    pub fn hal_event(&mut self, e: HalEv) {
        // platform calls are driver progress (a busy-wait loop that also consumes completions)
        self.idle_spins = 0;
        self.poll_empty_run = 0;
        if let Some(t) = &mut self.trace {
            if t.len() < 100_000 {
                // host pointers are not deterministic across processes: leave them out
                let s = match &e {
                    HalEv::Alloc { paddr, pages, dir, ap, failed, .. } => format!(
                        "dma_alloc pages={pages} dir={} ap={ap} -> paddr={paddr:#x} failed={failed}",
                        dir.name()
                    ),
                    HalEv::Dealloc { paddr, pages, ok, .. } => {
                        format!("dma_dealloc paddr={paddr:#x} pages={pages} ok={ok}")
                    }
                    HalEv::Share { paddr, len, dir, .. } => {
                        format!("share len={len} dir={} -> paddr={paddr:#x}", dir.name())
                    }
                    HalEv::Unshare { paddr, len, dir, ok, .. } => {
                        format!("unshare paddr={paddr:#x} len={len} dir={} ok={ok}", dir.name())
                    }
                    HalEv::MmioMap { paddr, size } => format!("mmio_map paddr={paddr:#x} size={size}"),
                };
                t.push(format!("[{}] hal {}", self.tick, s));
            }
        }
        if let Some(c) = &mut self.hal.capture {
            c.push(e);
        }
    }

    pub fn personality<T: 'static>(&mut self) -> &mut T {
        self.dev
            .as_mut()
            .expect("personality missing")
            .as_any()
            .downcast_mut::<T>()
            .expect("wrong personality type")
    }

    /// Resets all device-side state (status write of 0 or transport drop).
    pub fn device_reset(&mut self) {
        self.tr.resets += 1;
        self.tr.status = 0;
        self.tr.driver_features = 0;
        self.tr.isr = 0;
        for q in self.tr.queues.iter_mut() {
            q.ready = false;
            q.size = 0;
            q.desc = 0;
            q.driver = 0;
            q.device = 0;
        }
        for (i, dq) in self.dq.iter_mut().enumerate() {
            // Whatever was in flight is forgotten by the device.
            for s in self.hal.shares.values_mut() {
                if s.posted_on == Some(i as u16) {
                    s.posted_on = None;
                }
            }
            *dq = DevQueue::default();
        }
        self.hal.pinned.clear();
        if let Some(mut d) = self.dev.take() {
            d.on_reset();
            self.dev = Some(d);
        }
    }

    pub fn ensure_queues(&mut self, n: usize, max_size: u32) {
        while self.tr.queues.len() < n {
            self.tr.queues.push(QueueReg {
                max_size,
                ..Default::default()
            });
        }
        while self.dq.len() < n {
            self.dq.push(DevQueue::default());
        }
    }

    /// The configuration-change agent: a scheduler-controlled party that may install the next
    /// configuration version (and bump the generation) between any two configuration accesses.
    pub fn config_agent_point(&mut self) {
        if self.cfg_versions.is_empty() {
            return;
        }
        // one access in three, or two in three for an eager agent
        let c = self.tape.choose(3);
        if (self.cfg_agent_eager && c == 0) || (!self.cfg_agent_eager && c != 1) {
            return;
        }
        let v = self.cfg_versions.remove(0);
        self.ev(0x7c, self.tr.config_gen as u64, v.len() as u64);
        if self.cfg_exposed.is_empty() {
            self.cfg_exposed.push(self.tr.config.clone());
        }
        self.tr.config = v.clone();
        self.cfg_exposed.push(v);
        self.tr.config_gen = self.tr.config_gen.wrapping_add(1);
        self.tr.isr |= 2;
        *self.stats.faults.entry("config_change_mid_read").or_insert(0) += 1;
    }

    // -----------------------------------------------------------------------------------------
    // Scheduler

    /// A point at which the other parties may run.
    pub fn sched_point(&mut self, kind: PointKind) {
        self.tick += 1;
        self.stats.ticks += 1;
        // Shrink candidates only: a shortened tape can make a scenario astronomically slower than
        // the run it came from (a 4 GiB stream read one byte at a time); such a candidate is
        // abandoned. Ordinary runs and replays have no deadline.
        if self.tick & 0xfff == 0 {
            if let Some(d) = ABANDON_AT.with(|c| c.get()) {
                if std::time::Instant::now() > d {
                    ABANDON_AT.with(|c| c.set(None));
                    std::panic::panic_any(AbortRun("shrink candidate abandoned: too slow"));
                }
            }
        }
        if self.in_device {
            return;
        }
        if kind != PointKind::Spin {
            // the driver is doing something other than spinning
            self.idle_spins = 0;
            self.poll_empty_run = 0;
            if self.quiet {
                return;
            }
        }
        crate::heapwatch::poll(self);
        if self.cfg.scribble && matches!(kind, PointKind::Op | PointKind::Transport) {
            self.scribble();
        }
        if !self.cfg.device_active {
            if kind == PointKind::Spin {
                self.spin_supervise(false);
            }
            return;
        }
        match kind {
            PointKind::Spin => {
                self.stats.spins += 1;
                let mut can = self.device_can_progress();
                if !can {
                    if let Some(d) = self.dev.as_mut() {
                        if d.on_idle_spin() {
                            can = self.device_can_progress();
                        }
                    }
                }
                if !can {
                    self.spin_supervise(false);
                    return;
                }
                self.idle_spins = 0;
                // 0 -> one step (simplest), 1 -> stay passive (delay fault), k -> k steps
                let mut c = self.tape.choose(self.cfg.max_steps + 1);
                if c == 1 {
                    if self.delayed_spins >= self.cfg.max_delay {
                        c = 0;
                    } else {
                        self.delayed_spins += 1;
                        *self.stats.faults.entry("completion_delay").or_insert(0) += 1;
                        return;
                    }
                }
                self.delayed_spins = 0;
                let n = if c == 0 { 1 } else { c };
                for _ in 0..n {
                    if !self.device_step() {
                        break;
                    }
                }
            }
            PointKind::Store if !self.cfg.step_at_stores => {}
            _ => {
                if self.tape.choose(8) >= self.cfg.step_eighths {
                    return;
                }
                let n = 1 + self.tape.choose(self.cfg.max_steps);
                for _ in 0..n {
                    if !self.device_step() {
                        break;
                    }
                }
            }
        }
    }

    fn spin_supervise(&mut self, _progress: bool) {
        self.stats.spins += 1;
        self.idle_spins += 1;
        if !self.violations.is_empty() {
            // Continuing could spin forever; leave the driver.
            std::panic::panic_any(AbortRun("violation recorded; leaving busy-wait"));
        }
        if self.idle_spins > self.cfg.spin_idle_limit && self.cfg.hostile {
            // A device that never (correctly) answers makes any blocking call wait forever; that
            // is inherent in a blocking interface and not judged. Leave the driver.
            *self.stats.probes.entry("blocking_call_abandoned_under_hostile_device").or_insert(0) += 1;
            std::panic::panic_any(AbortRun("hostile device: blocking call abandoned"));
        }
        if self.idle_spins > self.cfg.spin_idle_limit {
            let state: Vec<String> = (0..self.dq.len())
                .filter(|q| self.tr.queues.get(*q).is_some_and(|r| r.ready))
                .map(|q| {
                    let d = &self.dq[q];
                    format!(
                        "q{q}: notified={} armed={} unfetched={} pending={}",
                        d.notified,
                        d.armed,
                        self.avail_idx_mem(q as u16).map(|i| i != d.last_avail).unwrap_or(false),
                        d.pending.len()
                    )
                })
                .collect();
            self.violation(
                "wait-never-ends",
                "spin",
                format!(
                    "driver busy-waits although the device has nothing it could do: it was never \
                     told about the request (lost wake-up) or the request cannot complete [{}]",
                    state.join("; ")
                ),
            );
            std::panic::panic_any(AbortRun("busy-wait can never end"));
        }
        if self.stats.spins > self.cfg.spin_hard_limit {
            self.harness_errors.push("spin hard limit exceeded".into());
            std::panic::panic_any(AbortRun("spin hard limit"));
        }
    }

    /// Lets the device run `n` steps now (for scenarios that drive the device explicitly).
    pub fn run_device(&mut self, n: u64) -> u64 {
        let mut done = 0;
        for _ in 0..n {
            if !self.device_step() {
                break;
            }
            done += 1;
        }
        done
    }

    /// Runs the device until it has nothing left to do.
    pub fn drain_device(&mut self) {
        let mut guard = 0u64;
        while self.device_step() {
            guard += 1;
            if guard > 10_000_000 {
                self.harness_errors.push("drain_device does not terminate".into());
                break;
            }
        }
    }
}
