//! Reference NIC: receive queue 0, transmit queue 1. Header is 12 bytes iff VERSION_1 was
//! negotiated (MRG_RXBUF is never negotiated by this driver), else 10 bytes.

use crate::world::*;
use std::collections::VecDeque;

#[derive(Clone, Debug)]
pub struct RxRec {
    pub head: u16,
    pub frame: Vec<u8>,
    pub hdr: Vec<u8>,
    /// the device reported a used length shorter than the header (fault)
    pub short: bool,
}

pub struct NetDev {
    /// frames the device still has to deliver to the driver
    pub inbound: VecDeque<Vec<u8>>,
    /// deliveries done, in used-ring order, not yet consumed by the scenario
    pub delivered: VecDeque<RxRec>,
    /// frames seen on the transmit queue (without the header), in completion order, with head
    pub tx: VecDeque<(u16, Vec<u8>)>,
    pub n: u64,
    /// fault: used length shorter than the header now and then
    pub short_len: bool,
}

impl NetDev {
    pub fn new() -> Self {
        NetDev { inbound: VecDeque::new(), delivered: VecDeque::new(), tx: VecDeque::new(), n: 0, short_len: false }
    }
}

pub fn hdr_len(tr: &TrState) -> usize {
    if tr.negotiated(F_VERSION_1) { 12 } else { 10 }
}

impl Personality for NetDev {
    fn completable(&self, q: u16, _c: &Chain) -> bool {
        q != 0 || !self.inbound.is_empty()
    }
    fn complete(&mut self, q: u16, chain: &Chain, ctx: &mut DevCtx) -> u32 {
        let hl = hdr_len(ctx.tr);
        match q {
            0 => {
                if chain.readable_len() != 0 {
                    ctx.violation("net-rx-shape", "receiveq", "receive buffer has a device-readable part".into());
                }
                let cap = chain.writable_len();
                if cap < hl {
                    ctx.violation("net-rx-shape", "receiveq", format!("receive buffer of {cap} bytes cannot hold the {hl}-byte header"));
                    return 0;
                }
                let mut frame = self.inbound.pop_front().unwrap_or_default();
                frame.truncate(cap - hl);
                self.n += 1;
                // arbitrary header contents; num_buffers = 1 in the modern header
                let mut hdr: Vec<u8> = (0..hl).map(|i| (self.n as u8).wrapping_mul(3).wrapping_add(i as u8)).collect();
                if hl == 12 {
                    hdr[10] = 1;
                    hdr[11] = 0;
                }
                let mut data = hdr.clone();
                data.extend_from_slice(&frame);
                ctx.write_out(chain, &data);
                let mut used = data.len() as u32;
                let mut short = false;
                if self.short_len && ctx.tape.choose(4) == 1 {
                    used = ctx.tape.choose(hl as u64) as u32;
                    short = true;
                    ctx.fault("used_len_short");
                }
                self.delivered.push_back(RxRec { head: chain.head, frame, hdr, short });
                used
            }
            1 => {
                if chain.writable_len() != 0 {
                    ctx.violation("net-tx-shape", "transmitq", "transmit chain has a device-writable part".into());
                }
                let data = ctx.read_in(chain);
                if data.len() < hl {
                    ctx.violation("net-tx-header", "transmitq", format!("transmitted {} bytes, shorter than the {hl}-byte header required by the negotiated features", data.len()));
                    return 0;
                }
                if data[..hl].iter().any(|b| *b != 0) {
                    ctx.violation("net-tx-header", "transmitq", format!("virtio-net header of a transmitted frame is not all zero: {:x?}", &data[..hl]));
                }
                self.tx.push_back((chain.head, data[hl..].to_vec()));
                0
            }
            _ => 0,
        }
    }
    fn on_reset(&mut self) {
        self.delivered.clear();
    }
    fn as_any(&mut self) -> &mut dyn std::any::Any {
        self
    }
}
