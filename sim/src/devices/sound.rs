//! Reference sound device: control queue (info queries, PCM control, jack remap), event queue
//! (delegated to the event source), tx queue (PCM output).

use crate::devices::events::EventSource;
use crate::world::*;
use std::collections::{BTreeMap, VecDeque};

pub const S_OK: u32 = 0x8000;

#[derive(Clone, Debug, Default)]
pub struct Stream {
    pub direction: u8,
    pub features: u32,
    pub formats: u64,
    pub rates: u64,
    pub channels_min: u8,
    pub channels_max: u8,
    pub params: Option<(u32, u32, u32, u8, u8, u8)>, // buffer_bytes, period_bytes, features, channels, format, rate
    pub played: Vec<u8>,
    pub chunks: Vec<usize>,
    pub cmds: Vec<u32>,
}

#[derive(Clone, Debug)]
pub struct CtlSeen {
    pub code: u32,
    pub words: Vec<u32>,
    pub status: u32,
}

pub struct SoundDev {
    pub events: EventSource,
    pub jacks: Vec<(u32, u32, u32, u32, u8)>, // nid, features, defconf, caps, connected
    pub streams: Vec<Stream>,
    pub chmaps: Vec<(u32, u8, u8)>,
    pub ctl: VecDeque<CtlSeen>,
    pub remaps: Vec<(u32, u32, u32)>,
    pub faulty: bool,
    /// a JACK_INFO query was answered with an error at some point
    pub jack_info_failed: bool,
    /// per stream: sequence numbers of published tx chains, in order
    pub tx_order: BTreeMap<u32, VecDeque<u64>>,
    pub tx_stream_of: BTreeMap<u64, u32>,
    /// period in effect when the chunk was published
    pub tx_period_of: BTreeMap<u64, Option<u32>>,
    pub tx_done: VecDeque<(u16, u32, usize, u32)>, // head, stream, len, status
}

impl SoundDev {
    pub fn new() -> Self {
        SoundDev {
            events: EventSource::new(1),
            jacks: vec![(1, 1, 0x11, 0x22, 1), (2, 0, 0x33, 0x44, 0)],
            streams: vec![
                Stream { direction: 0, features: 0, formats: 0x60, rates: 0xc0, channels_min: 1, channels_max: 2, ..Default::default() },
                Stream { direction: 1, features: 0x10, formats: 0x20, rates: 0x40, channels_min: 1, channels_max: 1, ..Default::default() },
            ],
            chmaps: vec![(5, 0, 2)],
            ctl: VecDeque::new(),
            remaps: Vec::new(),
            faulty: false,
            jack_info_failed: false,
            tx_order: BTreeMap::new(),
            tx_stream_of: BTreeMap::new(),
            tx_period_of: BTreeMap::new(),
            tx_done: VecDeque::new(),
        }
    }
}

fn words(b: &[u8]) -> Vec<u32> {
    b.chunks(4).filter(|c| c.len() == 4).map(|c| u32::from_le_bytes(c.try_into().unwrap())).collect()
}

impl Personality for SoundDev {
    fn completable(&self, q: u16, c: &Chain) -> bool {
        match q {
            1 => self.events.completable(1, c),
            2 => match self.tx_stream_of.get(&c.seq) {
                // in order within a stream
                Some(s) => self.tx_order.get(s).and_then(|f| f.front()) == Some(&c.seq),
                None => true,
            },
            _ => true,
        }
    }
    fn on_published(&mut self, q: u16, chain: &Chain, ctx: &mut DevCtx) {
        if q == 2 {
            let mut b = [0u8; 4];
            if let Some(e) = chain.elems.iter().find(|e| !e.write && e.len >= 4) {
                let _ = ctx.hal.dev_read(e.addr, &mut b);
            }
            let s = u32::from_le_bytes(b);
            self.tx_stream_of.insert(chain.seq, s);
            self.tx_period_of.insert(chain.seq, self.streams.get(s as usize).and_then(|st| st.params).map(|p| p.1));
            self.tx_order.entry(s).or_default().push_back(chain.seq);
        }
    }
    fn complete(&mut self, q: u16, chain: &Chain, ctx: &mut DevCtx) -> u32 {
        match q {
            1 => self.events.complete(1, chain, ctx),
            2 => {
                let data = ctx.read_in(chain);
                let wl = chain.writable_len();
                if data.len() < 4 || wl != 8 {
                    ctx.violation("sound-tx-shape", "txq", format!("tx message: {} readable bytes, {wl} writable bytes (want >= 4 and exactly 8)", data.len()));
                    return 0;
                }
                let sid = u32::from_le_bytes(data[0..4].try_into().unwrap());
                if let Some(f) = self.tx_order.get_mut(&sid) {
                    if f.front() == Some(&chain.seq) {
                        f.pop_front();
                    }
                }
                self.tx_stream_of.remove(&chain.seq);
                let period_at_publish = self.tx_period_of.remove(&chain.seq).flatten();
                let frames = &data[4..];
                let mut status = S_OK;
                match self.streams.get_mut(sid as usize) {
                    None => {
                        ctx.violation("sound-tx-stream", "txq", format!("tx message for stream {sid}, device has {} streams", 2));
                        status = 0x8001;
                    }
                    Some(s) => match period_at_publish.map(|p| (0u32, p, 0u32, 0u8, 0u8, 0u8)).or(s.params) {
                        None => {
                            ctx.violation("sound-tx-before-params", "txq", format!("PCM data for stream {sid} before its parameters were set"));
                            status = 0x8001;
                        }
                        Some((_, period, ..)) => {
                            if frames.len() > period as usize {
                                ctx.violation("sound-tx-chunk", "txq", format!("chunk of {} bytes exceeds the configured period of {period} bytes", frames.len()));
                            }
                            if frames.is_empty() {
                                ctx.violation("sound-tx-chunk", "txq", "empty PCM chunk".into());
                            }
                            if self.faulty && ctx.tape.choose(4) == 1 {
                                status = [0x8001u32, 0x8002, 0x8003][ctx.tape.choose(3) as usize];
                                ctx.fault("device_error_status");
                            } else {
                                s.played.extend_from_slice(frames);
                                s.chunks.push(frames.len());
                            }
                        }
                    },
                }
                let mut st = Vec::new();
                st.extend_from_slice(&status.to_le_bytes());
                st.extend_from_slice(&0u32.to_le_bytes());
                ctx.write_out(chain, &st);
                self.tx_done.push_back((chain.head, sid, frames.len(), status));
                8
            }
            0 => {
                let req = ctx.read_in(chain);
                let wl = chain.writable_len();
                if req.len() < 4 || wl < 4 {
                    ctx.violation("sound-control-shape", "controlq", format!("control request {} bytes, response buffer {wl}", req.len()));
                    return 0;
                }
                let w = words(&req);
                let code = w[0];
                let mut status = S_OK;
                let mut body: Vec<u8> = Vec::new();
                let exp_len = match code {
                    1 | 0x100 | 0x200 => 16,
                    2 => 16,
                    0x101 => 24,
                    0x102..=0x105 => 8,
                    _ => req.len(),
                };
                if req.len() != exp_len {
                    ctx.violation("sound-control-shape", "controlq", format!("request {code:#x} is {} bytes, specification says {exp_len}", req.len()));
                }
                match code {
                    1 | 0x100 | 0x200 if w.len() >= 4 => {
                        let (start, count, size) = (w[1], w[2], w[3]);
                        let (n, rec) = match code {
                            1 => (self.jacks.len() as u32, 24u32),
                            0x100 => (self.streams.len() as u32, 32),
                            _ => (self.chmaps.len() as u32, 24),
                        };
                        if size != rec {
                            ctx.violation("sound-control-field", "query_info", format!("query {code:#x} with item size {size}, record size is {rec}"));
                        }
                        if start.checked_add(count).is_none_or(|e| e > n) {
                            status = 0x8001;
                        } else {
                            for i in start..start + count {
                                match code {
                                    1 => {
                                        let j = self.jacks[i as usize];
                                        body.extend_from_slice(&j.0.to_le_bytes());
                                        body.extend_from_slice(&j.1.to_le_bytes());
                                        body.extend_from_slice(&j.2.to_le_bytes());
                                        body.extend_from_slice(&j.3.to_le_bytes());
                                        body.push(j.4);
                                        body.extend_from_slice(&[0u8; 7]);
                                    }
                                    0x100 => {
                                        let s = &self.streams[i as usize];
                                        body.extend_from_slice(&(10 + i).to_le_bytes());
                                        body.extend_from_slice(&s.features.to_le_bytes());
                                        body.extend_from_slice(&s.formats.to_le_bytes());
                                        body.extend_from_slice(&s.rates.to_le_bytes());
                                        body.extend_from_slice(&[s.direction, s.channels_min, s.channels_max, 0, 0, 0, 0, 0]);
                                    }
                                    _ => {
                                        let c = self.chmaps[i as usize];
                                        body.extend_from_slice(&c.0.to_le_bytes());
                                        body.push(c.1);
                                        body.push(c.2);
                                        body.extend_from_slice(&[3u8; 18]);
                                    }
                                }
                            }
                        }
                    }
                    2 if w.len() >= 4 => {
                        let (jack, assoc, seq) = (w[1], w[2], w[3]);
                        if jack as usize >= self.jacks.len() {
                            status = 0x8001;
                        } else {
                            self.remaps.push((jack, assoc, seq));
                        }
                    }
                    0x101 if w.len() >= 6 => {
                        let sid = w[1];
                        let (bb, pb, feat) = (w[2], w[3], w[4]);
                        let (ch, fmt, rate, pad) = (req[20], req[21], req[22], req[23]);
                        if pad != 0 {
                            ctx.violation("sound-control-field", "PCM_SET_PARAMS", "padding byte not zero".into());
                        }
                        match self.streams.get_mut(sid as usize) {
                            None => status = 0x8001,
                            Some(s) => {
                                s.params = Some((bb, pb, feat, ch, fmt, rate));
                                s.cmds.push(code);
                            }
                        }
                    }
                    0x102..=0x105 if w.len() >= 2 => match self.streams.get_mut(w[1] as usize) {
                        None => status = 0x8001,
                        Some(s) => {
                            if s.params.is_none() {
                                status = 0x8001;
                            }
                            s.cmds.push(code);
                        }
                    },
                    other => {
                        ctx.violation("sound-control-header", "controlq", format!("unknown or truncated control request {other:#x} ({} bytes)", req.len()));
                        status = 0x8002;
                    }
                }
                if self.faulty && ctx.tape.choose(4) == 1 {
                    status = [0x8001u32, 0x8002, 0x8003, 0x1234][ctx.tape.choose(4) as usize];
                    body.clear();
                    ctx.fault("device_error_status");
                }
                if code == 1 && status != S_OK {
                    self.jack_info_failed = true;
                }
                let mut resp = status.to_le_bytes().to_vec();
                resp.extend_from_slice(&body);
                let n = ctx.write_out(chain, &resp);
                self.ctl.push_back(CtlSeen { code, words: w.iter().copied().skip(1).take(6).collect(), status });
                n as u32
            }
            _ => 0,
        }
    }
    fn on_reset(&mut self) {
        self.events.on_reset();
        self.tx_order.clear();
        self.tx_stream_of.clear();
        self.tx_period_of.clear();
    }
    fn as_any(&mut self) -> &mut dyn std::any::Any {
        self
    }
}
