//! Reference console device (port 0): owns a byte stream for the receive queue, records what
//! arrives on the transmit queue.

use crate::world::*;
use std::collections::VecDeque;

pub struct ConsoleDev {
    /// chunks the device still has to deliver (each at most one per completion)
    pub input: VecDeque<Vec<u8>>,
    /// every byte written to a receive buffer so far
    pub written: Vec<u8>,
    /// transmissions seen, in order
    pub tx: Vec<Vec<u8>>,
    /// bytes the caller has consumed so far (maintained by the scenario)
    pub consumed: usize,
    /// `written.len()` at the moment of each receive-buffer publication since the scenario last looked
    pub publish_marks: Vec<usize>,
    pub max_rx_posted: usize,
    pub emerg: Vec<u8>,
}

impl ConsoleDev {
    pub fn new() -> Self {
        ConsoleDev { input: VecDeque::new(), written: Vec::new(), tx: Vec::new(), consumed: 0, publish_marks: Vec::new(), max_rx_posted: 0, emerg: Vec::new() }
    }
    pub fn undelivered(&self) -> usize {
        self.input.iter().map(|c| c.len()).sum()
    }
}

impl Personality for ConsoleDev {
    fn completable(&self, q: u16, _c: &Chain) -> bool {
        q != 0 || !self.input.is_empty()
    }
    fn complete(&mut self, q: u16, chain: &Chain, ctx: &mut DevCtx) -> u32 {
        match q {
            0 => {
                if chain.readable_len() != 0 {
                    ctx.violation("console-rx-shape", "receiveq", "receive buffer chain has a device-readable part".into());
                }
                let cap = chain.writable_len();
                let mut chunk = self.input.pop_front().unwrap_or_default();
                if chunk.len() > cap {
                    let rest = chunk.split_off(cap);
                    self.input.push_front(rest);
                }
                if chunk.is_empty() {
                    return 0;
                }
                ctx.write_out(chain, &chunk);
                self.written.extend_from_slice(&chunk);
                chunk.len() as u32
            }
            1 => {
                if chain.writable_len() != 0 {
                    ctx.violation("console-tx-shape", "transmitq", "transmit chain has a device-writable part".into());
                }
                let data = ctx.read_in(chain);
                self.tx.push(data);
                0
            }
            _ => 0,
        }
    }
    fn on_published(&mut self, q: u16, _chain: &Chain, _ctx: &mut DevCtx) {
        if q == 0 {
            self.publish_marks.push(self.written.len());
        }
    }
    fn on_config_write(&mut self, off: usize, len: usize, ctx: &mut DevCtx) {
        // emerg_wr at offset 8
        if off == 8 && len == 4 {
            let b = ctx.tr.config[8];
            self.emerg.push(b);
        }
    }
    fn as_any(&mut self) -> &mut dyn std::any::Any {
        self
    }
}
