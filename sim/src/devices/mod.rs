//! Device personalities: reference models of the device side of each driver, transcribed from
//! the VirtIO 1.2 text (DESIGN appendix A). Each is also the oracle for its request format.
pub mod blk;
pub mod events;
pub mod console;
pub mod net;
pub mod simple;
pub mod gpu;
pub mod sound;
pub mod vsock;
