//! Event-source personality: the device completes driver-stocked buffers (input events, sound
//! notifications, generic OwningQueue buffers) with position-identifying payloads, in any order
//! the scheduler picks, as long as it has budget.

use crate::world::*;
use std::collections::VecDeque;

#[derive(Clone, Debug)]
pub struct EventRec {
    pub head: u16,
    pub n: u64,
    pub bytes: Vec<u8>,
    pub reported: u32,
}

pub struct EventSource {
    /// queue on which events are delivered
    pub q: u16,
    /// how many more events the device may emit
    pub budget: u64,
    pub next: u64,
    /// payload length: None = drawn from the tape in 0..=capacity, Some(n) = exactly n
    pub fixed_len: Option<usize>,
    /// generator for fixed-size payloads: (event number) -> bytes
    pub payload: Option<fn(u64) -> Vec<u8>>,
    /// in delivery (used ring) order, not yet consumed by the scenario
    pub delivered: VecDeque<EventRec>,
    /// fault: report a length larger than the buffer now and then
    pub lie_len: bool,
}

impl EventSource {
    pub fn new(q: u16) -> Self {
        EventSource { q, budget: 0, next: 0, fixed_len: None, payload: None, delivered: VecDeque::new(), lie_len: false }
    }
}

pub fn event_byte(n: u64, i: usize) -> u8 {
    (n as u8).wrapping_mul(37).wrapping_add((i as u8).wrapping_mul(11)).wrapping_add(1)
}

impl Personality for EventSource {
    fn completable(&self, q: u16, _chain: &Chain) -> bool {
        q != self.q || self.budget > 0
    }
    fn complete(&mut self, q: u16, chain: &Chain, ctx: &mut DevCtx) -> u32 {
        if q != self.q {
            // other queues: swallow
            return 0;
        }
        if chain.readable_len() != 0 {
            ctx.violation("event-buffer-shape", &format!("q{q}"), format!("event buffer chain has {} device-readable bytes", chain.readable_len()));
        }
        let cap = chain.writable_len();
        self.budget -= 1;
        self.next += 1;
        let n = self.next;
        let bytes: Vec<u8> = match (self.payload, self.fixed_len) {
            (Some(f), _) => {
                let mut b = f(n);
                b.truncate(cap);
                b
            }
            (None, Some(l)) => (0..l.min(cap)).map(|i| event_byte(n, i)).collect(),
            (None, None) => {
                let l = ctx.tape.choose(cap as u64 + 1) as usize;
                (0..l).map(|i| event_byte(n, i)).collect()
            }
        };
        ctx.write_out(chain, &bytes);
        let mut reported = bytes.len() as u32;
        if self.lie_len && ctx.tape.choose(4) == 1 {
            reported = [cap as u32 + 1, 0x1_0000, u32::MAX][ctx.tape.choose(3) as usize];
            ctx.fault("used_len_lie");
        }
        if self.delivered.len() < 100_000 {
            self.delivered.push_back(EventRec { head: chain.head, n, bytes, reported });
        }
        reported
    }
    fn on_reset(&mut self) {
        self.delivered.clear();
    }
    fn as_any(&mut self) -> &mut dyn std::any::Any {
        self
    }
}
