//! Reference vsock device: carries packets between the driver and simulated peers. The peers'
//! behaviour (credit accounting, connection state) lives in the scenario's reference model; the
//! device checks the framing of every transmitted packet.

use crate::world::*;
use std::collections::VecDeque;

pub const HDR: usize = 44;

#[derive(Clone, Debug, PartialEq, Eq)]
pub struct Pkt {
    pub src_cid: u64,
    pub dst_cid: u64,
    pub src_port: u32,
    pub dst_port: u32,
    pub len: u32,
    pub type_: u16,
    pub op: u16,
    pub flags: u32,
    pub buf_alloc: u32,
    pub fwd_cnt: u32,
    pub payload: Vec<u8>,
    /// bulk mode: payload not kept, only its length and a checksum of sampled bytes
    pub payload_len: usize,
}

impl Pkt {
    pub fn encode(&self) -> Vec<u8> {
        let mut b = Vec::with_capacity(HDR + self.payload.len());
        b.extend_from_slice(&self.src_cid.to_le_bytes());
        b.extend_from_slice(&self.dst_cid.to_le_bytes());
        b.extend_from_slice(&self.src_port.to_le_bytes());
        b.extend_from_slice(&self.dst_port.to_le_bytes());
        b.extend_from_slice(&self.len.to_le_bytes());
        b.extend_from_slice(&self.type_.to_le_bytes());
        b.extend_from_slice(&self.op.to_le_bytes());
        b.extend_from_slice(&self.flags.to_le_bytes());
        b.extend_from_slice(&self.buf_alloc.to_le_bytes());
        b.extend_from_slice(&self.fwd_cnt.to_le_bytes());
        b.extend_from_slice(&self.payload);
        b
    }
    pub fn decode(b: &[u8]) -> Option<Pkt> {
        if b.len() < HDR {
            return None;
        }
        let u64_ = |o: usize| u64::from_le_bytes(b[o..o + 8].try_into().unwrap());
        let u32_ = |o: usize| u32::from_le_bytes(b[o..o + 4].try_into().unwrap());
        let u16_ = |o: usize| u16::from_le_bytes(b[o..o + 2].try_into().unwrap());
        Some(Pkt {
            src_cid: u64_(0),
            dst_cid: u64_(8),
            src_port: u32_(16),
            dst_port: u32_(20),
            len: u32_(24),
            type_: u16_(28),
            op: u16_(30),
            flags: u32_(32),
            buf_alloc: u32_(36),
            fwd_cnt: u32_(40),
            payload: b[HDR..].to_vec(),
            payload_len: b.len() - HDR,
        })
    }
}

pub struct VsockDev {
    /// packets the device still has to deliver to the driver (already encoded)
    pub outbound: VecDeque<Vec<u8>>,
    /// packets delivered (in used-ring order), not yet consumed by the scenario's model
    pub delivered: VecDeque<Vec<u8>>,
    /// packets the driver transmitted, in order
    pub tx: VecDeque<Pkt>,
    pub guest_cid: u64,
    /// bulk mode: do not keep payloads (multi-GiB streams)
    pub bulk: bool,
    /// generator for verifying bulk payloads: (stream position) -> byte
    pub bulk_pos: u64,
}

impl VsockDev {
    pub fn new(guest_cid: u64) -> Self {
        VsockDev { outbound: VecDeque::new(), delivered: VecDeque::new(), tx: VecDeque::new(), guest_cid, bulk: false, bulk_pos: 0 }
    }
}

pub fn bulk_byte(pos: u64) -> u8 {
    (pos as u8).wrapping_mul(7) ^ ((pos >> 8) as u8).wrapping_mul(13) ^ ((pos >> 20) as u8)
}

impl Personality for VsockDev {
    fn completable(&self, q: u16, _c: &Chain) -> bool {
        match q {
            0 => !self.outbound.is_empty(),
            2 => false,
            _ => true,
        }
    }
    fn complete(&mut self, q: u16, chain: &Chain, ctx: &mut DevCtx) -> u32 {
        match q {
            0 => {
                if chain.readable_len() != 0 {
                    ctx.violation("vsock-rx-shape", "rxq", "receive buffer has a device-readable part".into());
                }
                let cap = chain.writable_len();
                let pkt = self.outbound.pop_front().unwrap_or_default();
                if pkt.len() > cap {
                    ctx.violation("harness-packet-too-large", "rxq", format!("harness generated a {}-byte packet for a {cap}-byte buffer", pkt.len()));
                    return 0;
                }
                ctx.write_out(chain, &pkt);
                let n = pkt.len() as u32;
                if !self.bulk {
                    self.delivered.push_back(pkt);
                } else {
                    self.delivered.push_back(pkt[..HDR.min(pkt.len())].to_vec());
                }
                n
            }
            1 => {
                if chain.writable_len() != 0 {
                    ctx.violation("vsock-tx-shape", "txq", "transmit chain has a device-writable part".into());
                }
                if self.bulk {
                    // header fully, payload sampled
                    let total = chain.readable_len();
                    let mut hdr = [0u8; HDR];
                    let first = &chain.elems[0];
                    if first.len as usize >= HDR {
                        let _ = ctx.hal.dev_read(first.addr, &mut hdr);
                    }
                    let Some(mut p) = Pkt::decode(&hdr) else { return 0 };
                    p.payload_len = total - HDR;
                    if chain.elems.len() >= 2 {
                        let e = &chain.elems[1];
                        let n = e.len as u64;
                        for k in 0..64u64 {
                            let off = if n <= 64 { k.min(n.saturating_sub(1)) } else { (k * (n - 1)) / 63 };
                            let mut b = [0u8; 1];
                            let _ = ctx.hal.dev_read(e.addr + off, &mut b);
                            if n > 0 && b[0] != bulk_byte(self.bulk_pos + off) {
                                ctx.violation("vsock-tx-data", "txq", format!("payload byte at stream position {} is {:#x}, caller sent {:#x}", self.bulk_pos + off, b[0], bulk_byte(self.bulk_pos + off)));
                                break;
                            }
                        }
                        self.bulk_pos += n;
                    }
                    if p.len as usize != p.payload_len {
                        ctx.violation("vsock-tx-len", "txq", format!("header len {} but {} payload bytes present", p.len, p.payload_len));
                    }
                    self.tx.push_back(p);
                    return 0;
                }
                let data = ctx.read_in(chain);
                match Pkt::decode(&data) {
                    None => ctx.violation("vsock-tx-shape", "txq", format!("transmitted {} bytes, shorter than the 44-byte header", data.len())),
                    Some(p) => {
                        if p.len as usize != p.payload.len() {
                            ctx.violation("vsock-tx-len", "txq", format!("header len {} but {} payload bytes present", p.len, p.payload.len()));
                        }
                        if p.type_ != 1 {
                            ctx.violation("vsock-tx-type", "txq", format!("socket type {} (STREAM is 1)", p.type_));
                        }
                        if p.src_cid != self.guest_cid {
                            ctx.violation("vsock-tx-src", "txq", format!("source CID {:#x}, guest CID is {:#x}", p.src_cid, self.guest_cid));
                        }
                        self.tx.push_back(p);
                    }
                }
                0
            }
            _ => 0,
        }
    }
    fn on_reset(&mut self) {
        self.delivered.clear();
    }
    fn as_any(&mut self) -> &mut dyn std::any::Any {
        self
    }
}
