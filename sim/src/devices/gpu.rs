//! Reference GPU device (2D): resources, backing, scanouts, cursor; checks command encoding and
//! command order, and pins backing memory for as long as it is attached.

use crate::world::*;
use std::collections::{BTreeMap, VecDeque};

#[derive(Clone, Debug, Default)]
pub struct Resource {
    pub width: u32,
    pub height: u32,
    pub format: u32,
    pub backing: Option<Vec<(u64, u32)>>,
    pub transferred_since_flush: bool,
    pub flushes: u64,
    pub transfers: u64,
    /// hash of the backing contents at the last transfer
    pub host_hash: u64,
}

#[derive(Clone, Debug)]
pub struct GpuCmd {
    pub type_: u32,
    pub words: Vec<u32>,
    pub resp: u32,
}

pub struct GpuDev {
    pub resources: BTreeMap<u32, Resource>,
    pub scanouts: BTreeMap<u32, (u32, [u32; 4])>,
    pub display: (u32, u32),
    pub edid: Vec<u8>,
    pub log: VecDeque<GpuCmd>,
    pub cursor_log: VecDeque<GpuCmd>,
    /// respond with an error / unexpected type now and then
    pub faulty: bool,
}

pub const OK_NODATA: u32 = 0x1100;
pub const OK_DISPLAY_INFO: u32 = 0x1101;
pub const OK_EDID: u32 = 0x1104;
pub const F_EDID: u64 = 1 << 1;

impl GpuDev {
    pub fn new() -> Self {
        GpuDev { resources: BTreeMap::new(), scanouts: BTreeMap::new(), display: (1280, 800), edid: vec![0; 1024], log: VecDeque::new(), cursor_log: VecDeque::new(), faulty: false }
    }
    fn unpin(&self, hal: &mut HalState, r: &Resource) {
        if let Some(b) = &r.backing {
            for (a, _) in b {
                hal.pinned.remove(a);
            }
        }
    }
}

fn words(b: &[u8]) -> Vec<u32> {
    b.chunks(4).filter(|c| c.len() == 4).map(|c| u32::from_le_bytes(c.try_into().unwrap())).collect()
}

impl Personality for GpuDev {
    fn complete(&mut self, q: u16, chain: &Chain, ctx: &mut DevCtx) -> u32 {
        let req = ctx.read_in(chain);
        let wl = chain.writable_len();
        if req.len() < 24 {
            ctx.violation("gpu-command-shape", "controlq", format!("command of {} bytes is shorter than the 24-byte header", req.len()));
            return 0;
        }
        let w = words(&req);
        let type_ = w[0];
        // header: flags, fence_id, ctx_id, padding must be zero (no fencing / contexts used)
        if w[1] != 0 || w[2] != 0 || w[3] != 0 || w[4] != 0 || w[5] != 0 {
            ctx.violation("gpu-command-header", "controlq", format!("command {type_:#x}: header fields after the type are not zero: {:x?}", &w[1..6]));
        }
        let body = &w[6..];
        if q == 1 {
            // cursor queue
            if wl != 0 {
                ctx.violation("gpu-command-shape", "cursorq", "cursor command with a device-writable part".into());
            }
            if type_ != 0x300 && type_ != 0x301 {
                ctx.violation("gpu-command-header", "cursorq", format!("command {type_:#x} on the cursor queue"));
            }
            if req.len() < 56 {
                ctx.violation("gpu-command-shape", "cursorq", format!("cursor command of {} bytes (56 expected)", req.len()));
            } else if type_ == 0x300 {
                let rid = body[4];
                match self.resources.get(&rid) {
                    Some(r) if r.backing.is_some() && r.transfers > 0 => {}
                    _ => ctx.violation("gpu-command-order", "cursorq", format!("UPDATE_CURSOR with resource {rid} that was not created, backed and transferred before")),
                }
            }
            self.cursor_log.push_back(GpuCmd { type_, words: body.iter().copied().take(8).collect(), resp: 0 });
            return 0;
        }
        let mut resp_type = OK_NODATA;
        let mut resp_body: Vec<u8> = Vec::new();
        let need = |n: usize, ctx: &mut DevCtx| -> bool {
            if body.len() < n {
                ctx.violation("gpu-command-shape", "controlq", format!("command {type_:#x} has {} body words, needs {n}", body.len()));
                false
            } else {
                true
            }
        };
        match type_ {
            0x100 => {
                resp_type = OK_DISPLAY_INFO;
                for i in 0..16u32 {
                    let (wd, ht, en) = if i == 0 { (self.display.0, self.display.1, 1u32) } else { (0, 0, 0) };
                    for v in [0u32, 0, wd, ht, en, 0] {
                        resp_body.extend_from_slice(&v.to_le_bytes());
                    }
                }
            }
            0x101 => {
                if need(4, ctx) {
                    let (id, fmt, wd, ht) = (body[0], body[1], body[2], body[3]);
                    if fmt != 1 {
                        ctx.violation("gpu-command-field", "RESOURCE_CREATE_2D", format!("format {fmt} (B8G8R8A8_UNORM is 1)"));
                    }
                    if id == 0 || self.resources.contains_key(&id) {
                        resp_type = 0x1203;
                    } else {
                        self.resources.insert(id, Resource { width: wd, height: ht, format: fmt, ..Default::default() });
                    }
                }
            }
            0x102 => {
                if need(1, ctx) {
                    match self.resources.remove(&body[0]) {
                        Some(r) => self.unpin(ctx.hal, &r),
                        None => resp_type = 0x1203,
                    }
                }
            }
            0x103 => {
                if need(6, ctx) {
                    let rect = [body[0], body[1], body[2], body[3]];
                    let (sid, rid) = (body[4], body[5]);
                    if rid == 0 {
                        self.scanouts.remove(&sid);
                    } else {
                        match self.resources.get(&rid) {
                            None => {
                                ctx.violation("gpu-command-order", "SET_SCANOUT", format!("SET_SCANOUT with resource {rid} that was never created"));
                                resp_type = 0x1203;
                            }
                            Some(r) => {
                                if r.backing.is_none() {
                                    ctx.violation("gpu-command-order", "SET_SCANOUT", format!("SET_SCANOUT with resource {rid} before backing was attached (order: create, attach backing, set scanout)"));
                                }
                                if rect[2] > r.width || rect[3] > r.height {
                                    resp_type = 0x1205;
                                }
                                self.scanouts.insert(sid, (rid, rect));
                            }
                        }
                    }
                }
            }
            0x104 => {
                if need(5, ctx) {
                    let rid = body[4];
                    match self.resources.get_mut(&rid) {
                        None => resp_type = 0x1203,
                        Some(r) => {
                            if !r.transferred_since_flush {
                                ctx.violation("gpu-command-order", "RESOURCE_FLUSH", format!("RESOURCE_FLUSH of resource {rid} without a TRANSFER_TO_HOST_2D since the last flush (order: transfer, then flush)"));
                            }
                            r.transferred_since_flush = false;
                            r.flushes += 1;
                        }
                    }
                }
            }
            0x105 => {
                if need(8, ctx) {
                    let rid = body[6];
                    let offset = body[4] as u64 | ((body[5] as u64) << 32);
                    match self.resources.get_mut(&rid) {
                        None => resp_type = 0x1203,
                        Some(r) => match &r.backing {
                            None => {
                                ctx.violation("gpu-command-order", "TRANSFER_TO_HOST_2D", format!("transfer for resource {rid} without backing"));
                                resp_type = 0x1200;
                            }
                            Some(b) => {
                                // read the whole backing as the host copy
                                let mut all = Vec::new();
                                for (a, l) in b {
                                    let mut buf = vec![0u8; *l as usize];
                                    if let Err(f) = ctx.hal.dev_read(*a, &mut buf) {
                                        push_violation(ctx.violations, "gpu-backing-unreadable", "TRANSFER_TO_HOST_2D", format!("{} ({:#x}+{})", f.why, f.paddr, f.len), ctx.tick);
                                    }
                                    all.extend_from_slice(&buf);
                                }
                                if offset != 0 {
                                    ctx.violation("gpu-command-field", "TRANSFER_TO_HOST_2D", format!("offset {offset} for a full-rectangle transfer"));
                                }
                                r.host_hash = hash_bytes(&all);
                                r.transferred_since_flush = true;
                                r.transfers += 1;
                            }
                        },
                    }
                }
            }
            0x106 => {
                if need(2, ctx) {
                    let (rid, n) = (body[0], body[1] as usize);
                    if body.len() < 2 + 4 * n {
                        ctx.violation("gpu-command-shape", "RESOURCE_ATTACH_BACKING", format!("{n} entries announced, {} body words", body.len()));
                    } else {
                        let mut ents = Vec::new();
                        for k in 0..n {
                            let a = body[2 + 4 * k] as u64 | ((body[3 + 4 * k] as u64) << 32);
                            let l = body[4 + 4 * k];
                            ents.push((a, l));
                        }
                        match self.resources.get_mut(&rid) {
                            None => {
                                ctx.violation("gpu-command-order", "RESOURCE_ATTACH_BACKING", format!("attach backing to resource {rid} that was never created"));
                                resp_type = 0x1203;
                            }
                            Some(r) => {
                                let total: u64 = ents.iter().map(|e| e.1 as u64).sum();
                                if total < r.width as u64 * r.height as u64 * 4 {
                                    ctx.violation("gpu-backing-too-small", "RESOURCE_ATTACH_BACKING", format!("backing of {total} bytes for a {}x{} resource", r.width, r.height));
                                }
                                for (a, l) in &ents {
                                    if ctx.hal.find_dma(*a, *l as usize).is_none() {
                                        push_violation(
                                            ctx.violations,
                                            "gpu-backing-not-dma",
                                            "RESOURCE_ATTACH_BACKING",
                                            format!("backing entry {a:#x}+{l} is not wholly inside live DMA memory (advertised length exceeds the allocation?)"),
                                            ctx.tick,
                                        );
                                    } else {
                                        ctx.hal.pinned.insert(*a, (*l as u64, "GPU resource backing"));
                                    }
                                }
                                r.backing = Some(ents);
                            }
                        }
                    }
                }
            }
            0x107 => {
                if need(1, ctx) {
                    match self.resources.get_mut(&body[0]) {
                        None => resp_type = 0x1203,
                        Some(r) => {
                            if let Some(b) = r.backing.take() {
                                for (a, _) in b {
                                    ctx.hal.pinned.remove(&a);
                                }
                            }
                        }
                    }
                }
            }
            0x10a => {
                if !ctx.tr.negotiated(F_EDID) {
                    ctx.violation("gpu-edid-not-negotiated", "GET_EDID", "GET_EDID although VIRTIO_GPU_F_EDID was not negotiated".into());
                }
                resp_type = OK_EDID;
                resp_body.extend_from_slice(&(self.edid.len().min(1024) as u32).to_le_bytes());
                resp_body.extend_from_slice(&0u32.to_le_bytes());
                let mut e = self.edid.clone();
                e.resize(1024, 0);
                resp_body.extend_from_slice(&e);
            }
            other => {
                ctx.violation("gpu-command-header", "controlq", format!("unknown control command {other:#x}"));
                resp_type = 0x1200;
            }
        }
        if self.faulty && ctx.tape.choose(3) == 1 {
            resp_type = [0x1200u32, 0x1201, 0x1202, 0x1203, 0x1204, 0x1205, 0x1100, 0x1101, 0x1104, 0xdead_beef][ctx.tape.choose(10) as usize];
            ctx.fault("device_error_status");
        }
        let mut resp = Vec::with_capacity(24 + resp_body.len());
        resp.extend_from_slice(&resp_type.to_le_bytes());
        resp.extend_from_slice(&[0u8; 20]);
        resp.extend_from_slice(&resp_body);
        let n = ctx.write_out(chain, &resp);
        if n < resp.len() && !self.faulty {
            ctx.violation("gpu-response-buffer", "controlq", format!("response of {} bytes does not fit the {wl}-byte response buffer", resp.len()));
        }
        self.log.push_back(GpuCmd { type_, words: body.iter().copied().take(12).collect(), resp: resp_type });
        n as u32
    }
    fn on_reset(&mut self) {
        self.resources.clear();
        self.scanouts.clear();
    }
    fn as_any(&mut self) -> &mut dyn std::any::Any {
        self
    }
}
