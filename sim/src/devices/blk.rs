//! Reference block device: sparse in-memory disk; checks the exact shape of every request.

use crate::world::*;
use std::collections::{BTreeMap, VecDeque};

pub const T_IN: u32 = 0;
pub const T_OUT: u32 = 1;
pub const T_FLUSH: u32 = 4;
pub const T_GET_ID: u32 = 8;

pub const F_RO: u64 = 1 << 5;
pub const F_FLUSH: u64 = 1 << 9;

#[derive(Clone, Debug)]
pub struct Seen {
    pub head: u16,
    pub type_: u32,
    pub sector: u64,
    pub data_len: usize,
    pub status: u8,
    pub used_len: u32,
}

pub struct BlkDev {
    pub disk: BTreeMap<u64, [u8; 512]>,
    /// Draw statuses other than OK.
    pub faulty: bool,
    pub log: VecDeque<Seen>,
    pub flushes: u64,
    pub id: [u8; 20],
}

pub fn default_sector(s: u64) -> [u8; 512] {
    let mut b = [0u8; 512];
    for (i, x) in b.iter_mut().enumerate() {
        *x = (s as u8).wrapping_mul(31).wrapping_add((i as u8).wrapping_mul(5)).wrapping_add((s >> 8) as u8);
    }
    b
}

impl BlkDev {
    pub fn new() -> Self {
        BlkDev { disk: BTreeMap::new(), faulty: false, log: VecDeque::new(), flushes: 0, id: *b"vdsim-reference-disk" }
    }
    pub fn sector(&self, s: u64) -> [u8; 512] {
        self.disk.get(&s).copied().unwrap_or_else(|| default_sector(s))
    }
}

impl Personality for BlkDev {
    fn complete(&mut self, _q: u16, chain: &Chain, ctx: &mut DevCtx) -> u32 {
        let site = "blk-request";
        let input = ctx.read_in(chain);
        let wl = chain.writable_len();
        if input.len() < 16 {
            ctx.violation("blk-request-shape", site, format!("request has only {} device-readable bytes; the header is 16", input.len()));
            return 0;
        }
        if wl < 1 {
            ctx.violation("blk-request-shape", site, "request has no device-writable status byte".into());
            return 0;
        }
        // the driver is expected to send the header as one readable element of exactly 16 bytes
        if chain.elems.first().map(|e| (e.write, e.len)) != Some((false, 16)) {
            ctx.violation("blk-request-shape", site, format!("first element is not a 16-byte device-readable header: {:?}", chain.elems.first()));
        }
        if chain.elems.last().map(|e| (e.write, e.len)) != Some((true, 1)) {
            ctx.violation("blk-request-shape", site, format!("last element is not a 1-byte device-writable status: {:?}", chain.elems.last()));
        }
        let type_ = u32::from_le_bytes(input[0..4].try_into().unwrap());
        let reserved = u32::from_le_bytes(input[4..8].try_into().unwrap());
        let sector = u64::from_le_bytes(input[8..16].try_into().unwrap());
        if reserved != 0 {
            ctx.violation("blk-request-header", site, format!("reserved field is {reserved:#x}"));
        }
        let mut status: u8 = 0;
        if self.faulty && ctx.tape.choose(3) == 1 {
            status = [1u8, 2, 3, 0x77][ctx.tape.choose(4) as usize];
            ctx.fault("device_error_status");
        }
        let out_data = &input[16..];
        let in_len = wl - 1;
        let mut written = 0usize;
        match type_ {
            T_IN => {
                if !out_data.is_empty() {
                    ctx.violation("blk-request-shape", site, format!("read request carries {} device-readable data bytes", out_data.len()));
                }
                if in_len == 0 || in_len % 512 != 0 {
                    ctx.violation("blk-request-shape", site, format!("read request has {in_len} writable data bytes (not a non-zero multiple of 512)"));
                }
                if status == 0 {
                    let mut data = Vec::with_capacity(in_len);
                    for k in 0..(in_len / 512) as u64 {
                        data.extend_from_slice(&self.sector(sector.wrapping_add(k)));
                    }
                    data.resize(in_len, 0);
                    written = ctx.write_out(chain, &data);
                } else {
                    // on error the data area is undefined: leave garbage, or nothing at all
                    if ctx.tape.choose(2) == 0 {
                        let junk = vec![0xBDu8; in_len];
                        written = ctx.write_out(chain, &junk);
                    }
                }
            }
            T_OUT => {
                if in_len != 0 {
                    ctx.violation("blk-request-shape", site, format!("write request has {in_len} writable bytes besides the status"));
                }
                if out_data.is_empty() || out_data.len() % 512 != 0 {
                    ctx.violation("blk-request-shape", site, format!("write request carries {} data bytes (not a non-zero multiple of 512)", out_data.len()));
                }
                if ctx.tr.negotiated(F_RO) {
                    ctx.violation("blk-write-to-readonly", site, "write request although the device is read-only (RO negotiated)".into());
                }
                if status == 0 {
                    for (k, c) in out_data.chunks(512).enumerate() {
                        if c.len() == 512 {
                            self.disk.insert(sector.wrapping_add(k as u64), c.try_into().unwrap());
                        }
                    }
                }
            }
            T_FLUSH => {
                if !ctx.tr.negotiated(F_FLUSH) {
                    ctx.violation("blk-flush-not-negotiated", site, "flush request although VIRTIO_BLK_F_FLUSH was not negotiated".into());
                }
                if in_len != 0 || !out_data.is_empty() {
                    ctx.violation("blk-request-shape", site, "flush request carries data".into());
                }
                if sector != 0 {
                    ctx.violation("blk-request-header", site, format!("flush request with sector {sector}"));
                }
                self.flushes += 1;
            }
            T_GET_ID => {
                if in_len != 20 || !out_data.is_empty() {
                    ctx.violation("blk-request-shape", site, format!("GET_ID with {in_len} writable and {} readable data bytes (want 20/0)", out_data.len()));
                }
                let id = self.id;
                written = ctx.write_out(chain, &id[..in_len.min(20)]);
            }
            other => {
                ctx.violation("blk-request-header", site, format!("unknown request type {other}"));
                status = 2;
            }
        }
        // status is the last writable byte
        ctx.write_out_at(chain, wl - 1, &[status]);
        let mut used = (written.max(in_len) + 1) as u32;
        if self.faulty && status != 0 && written == 0 && ctx.tape.choose(2) == 1 {
            // a device that failed the request and wrote nothing but the status byte may count
            // just that byte (the status still decides the outcome)
            used = 1;
            ctx.fault("error_status_short_used_len");
        }
        if self.log.len() < 4096 {
            self.log.push_back(Seen { head: chain.head, type_, sector, data_len: if type_ == T_OUT { out_data.len() } else { in_len }, status, used_len: used });
        }
        used
    }
    fn on_reset(&mut self) {
        self.log.clear();
    }
    fn as_any(&mut self) -> &mut dyn std::any::Any {
        self
    }
}
