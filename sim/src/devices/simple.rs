//! Reference entropy, RTC and 9P devices.

use crate::world::*;
use std::collections::VecDeque;

pub fn entropy_byte(n: u64, i: usize) -> u8 {
    (n as u8).wrapping_mul(113).wrapping_add((i as u8).wrapping_mul(29)).wrapping_add(7)
}

pub struct RngDev {
    pub n: u64,
    /// (request number, bytes provided)
    pub served: VecDeque<(u64, Vec<u8>)>,
}

impl RngDev {
    pub fn new() -> Self {
        RngDev { n: 0, served: VecDeque::new() }
    }
}

impl Personality for RngDev {
    fn complete(&mut self, _q: u16, chain: &Chain, ctx: &mut DevCtx) -> u32 {
        if chain.readable_len() != 0 || chain.elems.len() != 1 {
            ctx.violation("rng-request-shape", "requestq", format!("entropy request must be exactly one device-writable buffer, got {:?}", chain.elems));
        }
        let wl = chain.writable_len();
        self.n += 1;
        let k = if wl == 0 { 0 } else { 1 + ctx.tape.choose(wl as u64) as usize };
        let bytes: Vec<u8> = (0..k).map(|i| entropy_byte(self.n, i)).collect();
        ctx.write_out(chain, &bytes);
        self.served.push_back((self.n, bytes));
        k as u32
    }
    fn as_any(&mut self) -> &mut dyn std::any::Any {
        self
    }
}

// ---------------------------------------------------------------------------------------------

#[derive(Clone, Debug)]
pub struct RtcClock {
    pub type_: u8,
    pub smear: u8,
    pub flags: u8,
    pub reading: u64,
}

#[derive(Clone, Debug)]
pub struct RtcSeen {
    pub msg_type: u16,
    pub clock_id: u16,
    pub status: u8,
}

pub struct RtcDev {
    pub clocks: Vec<RtcClock>,
    pub faulty: bool,
    pub seen: VecDeque<RtcSeen>,
}

impl RtcDev {
    pub fn new() -> Self {
        RtcDev { clocks: Vec::new(), faulty: false, seen: VecDeque::new() }
    }
}

impl Personality for RtcDev {
    fn complete(&mut self, _q: u16, chain: &Chain, ctx: &mut DevCtx) -> u32 {
        let site = "rtc-request";
        let req = ctx.read_in(chain);
        let wl = chain.writable_len();
        if req.len() < 8 {
            ctx.violation("rtc-request-shape", site, format!("request of {} bytes is shorter than the 8-byte head", req.len()));
            return 0;
        }
        let msg_type = u16::from_le_bytes([req[0], req[1]]);
        if req[2..8].iter().any(|b| *b != 0) {
            ctx.violation("rtc-request-header", site, format!("reserved bytes of the request head are not zero: {:x?}", &req[2..8]));
        }
        let (want_req, want_resp) = match msg_type {
            0x1000 => (8, 16),
            0x1001 | 0x0001 => (16, 16),
            _ => (req.len(), wl),
        };
        if req.len() != want_req || wl != want_resp {
            ctx.violation("rtc-request-shape", site, format!("message {msg_type:#x}: request {} bytes / response buffer {wl} bytes, specification says {want_req} / {want_resp}", req.len()));
        }
        let clock_id = if req.len() >= 10 { u16::from_le_bytes([req[8], req[9]]) } else { 0 };
        if req.len() >= 16 && req[10..16].iter().any(|b| *b != 0) {
            ctx.violation("rtc-request-header", site, "reserved bytes after clock_id are not zero".into());
        }
        let mut status = 0u8;
        if self.faulty && ctx.tape.choose(3) == 1 {
            status = [2u8, 3, 4, 5, 0x33][ctx.tape.choose(5) as usize];
            ctx.fault("device_error_status");
        }
        let mut resp = vec![0u8; 16];
        match msg_type {
            0x1000 => resp[8..10].copy_from_slice(&(self.clocks.len() as u16).to_le_bytes()),
            0x1001 => match self.clocks.get(clock_id as usize) {
                Some(c) => {
                    resp[8] = c.type_;
                    resp[9] = c.smear;
                    resp[10] = c.flags;
                }
                None => {
                    if status == 0 {
                        status = 3
                    }
                }
            },
            0x0001 => match self.clocks.get(clock_id as usize) {
                Some(c) => resp[8..16].copy_from_slice(&c.reading.to_le_bytes()),
                None => {
                    if status == 0 {
                        status = 3
                    }
                }
            },
            other => {
                ctx.violation("rtc-request-header", site, format!("unknown message type {other:#x}"));
                status = 2;
            }
        }
        resp[0] = status;
        if status != 0 {
            for b in resp[8..].iter_mut() {
                *b = 0xEE;
            }
        }
        let n = ctx.write_out(chain, &resp);
        self.seen.push_back(RtcSeen { msg_type, clock_id, status });
        n as u32
    }
    fn as_any(&mut self) -> &mut dyn std::any::Any {
        self
    }
}

// ---------------------------------------------------------------------------------------------

pub struct P9Dev {
    /// requests seen
    pub reqs: VecDeque<Vec<u8>>,
    /// fault: size field in the response header differs from the used length
    pub bad_size: bool,
    pub resps: VecDeque<(Vec<u8>, bool)>,
}

impl P9Dev {
    pub fn new() -> Self {
        P9Dev { reqs: VecDeque::new(), bad_size: false, resps: VecDeque::new() }
    }
}

impl Personality for P9Dev {
    fn complete(&mut self, _q: u16, chain: &Chain, ctx: &mut DevCtx) -> u32 {
        let req = ctx.read_in(chain);
        let wl = chain.writable_len();
        if req.is_empty() || wl < 7 {
            ctx.violation("9p-request-shape", "requestq", format!("request {} bytes, response buffer {wl} bytes", req.len()));
        }
        // response: size[4] type[1] tag[2] payload; payload is derived from the request
        let payload_len = if wl > 7 { ctx.tape.choose((wl - 7) as u64 + 1) as usize } else { 0 };
        let total = 7 + payload_len;
        let mut resp = Vec::with_capacity(total);
        let mut lied = false;
        let mut size = total as u32;
        if self.bad_size && ctx.tape.choose(3) == 1 {
            size = size.wrapping_add(1 + ctx.tape.choose(5) as u32);
            lied = true;
            ctx.fault("response_garbage");
        }
        resp.extend_from_slice(&size.to_le_bytes());
        resp.push(req.first().copied().unwrap_or(0).wrapping_add(1));
        resp.extend_from_slice(&[req.get(5).copied().unwrap_or(0), req.get(6).copied().unwrap_or(0)]);
        let h = hash_bytes(&req);
        for i in 0..payload_len {
            resp.push((h >> ((i % 8) * 8)) as u8 ^ i as u8);
        }
        let n = ctx.write_out(chain, &resp[..resp.len().min(wl)]);
        self.reqs.push_back(req);
        self.resps.push_back((resp, lied));
        n as u32
    }
    fn as_any(&mut self) -> &mut dyn std::any::Any {
        self
    }
}
