//! Watches the process heap for a release of a driver-owned buffer that is still posted to a live
//! queue (C09). The global allocator wrapper only consults a small const-initialised
//! thread-local table (no allocation, no destructor), and the world polls the result at the next
//! scheduling point.

use crate::world::World;
use std::alloc::{GlobalAlloc, Layout, System};
use std::cell::Cell;

const SLOTS: usize = 256;

thread_local! {
    static RANGES: Cell<[(usize, usize); SLOTS]> = const { Cell::new([(0, 0); SLOTS]) };
    static N: Cell<usize> = const { Cell::new(0) };
    static HIT: Cell<(usize, usize)> = const { Cell::new((0, 0)) };
    /// ranges of posted buffers that were freed (so that an in-place device access can be refused
    /// instead of corrupting the harness' own heap)
    static FREED: Cell<[(usize, usize); 16]> = const { Cell::new([(0, 0); 16]) };
    static NFREED: Cell<usize> = const { Cell::new(0) };
    static ENABLED: Cell<bool> = const { Cell::new(false) };
    /// Fault injection: size of the zero-initialised allocation that is to fail next on this
    /// thread (0 = none). Only `alloc_zeroed` is affected: that is what zerocopy's
    /// `new_box_zeroed*` constructors call, and they report a null return as `Err(AllocError)`
    /// (the library unwraps it: a clean panic). Plain `alloc` failures end in
    /// `handle_alloc_error`, which aborts the process, and are not injected.
    static FAIL_ZEROED: Cell<usize> = const { Cell::new(0) };
    static FAIL_FIRED: Cell<bool> = const { Cell::new(false) };
}

pub struct WatchAlloc;

// SAFETY: delegates to the system allocator; the extra bookkeeping does not allocate.
unsafe impl GlobalAlloc for WatchAlloc {
    unsafe fn alloc(&self, l: Layout) -> *mut u8 {
        // SAFETY: forwarded.
        unsafe { System.alloc(l) }
    }
    unsafe fn alloc_zeroed(&self, l: Layout) -> *mut u8 {
        let fail = FAIL_ZEROED
            .try_with(|c| {
                if c.get() != 0 && c.get() == l.size() && !crate::world::in_harness() {
                    c.set(0);
                    true
                } else {
                    false
                }
            })
            .unwrap_or(false);
        if fail {
            let _ = FAIL_FIRED.try_with(|f| f.set(true));
            return std::ptr::null_mut();
        }
        // SAFETY: forwarded.
        unsafe { System.alloc_zeroed(l) }
    }
    unsafe fn realloc(&self, p: *mut u8, l: Layout, n: usize) -> *mut u8 {
        // SAFETY: forwarded.
        unsafe { System.realloc(p, l, n) }
    }
    unsafe fn dealloc(&self, p: *mut u8, l: Layout) {
        let _ = ENABLED.try_with(|e| {
            if e.get() {
                let n = N.with(|n| n.get());
                if n > 0 {
                    let a = p as usize;
                    let b = a + l.size();
                    RANGES.with(|r| {
                        let t = r.get();
                        for &(s, e2) in t.iter().take(n) {
                            if s < b && a < e2 {
                                HIT.with(|h| {
                                    if h.get().1 == 0 {
                                        h.set((a, l.size()))
                                    }
                                });
                                let k = NFREED.with(|c| c.get());
                                if k < 16 {
                                    FREED.with(|f| {
                                        let mut t = f.get();
                                        t[k] = (s, e2);
                                        f.set(t);
                                    });
                                    NFREED.with(|c| c.set(k + 1));
                                }
                            }
                        }
                    });
                }
            }
        });
        // SAFETY: forwarded.
        unsafe { System.dealloc(p, l) }
    }
}

/// Recomputes the table from the shares that are posted on live queues.
pub fn sync(w: &mut World) {
    let mut t = [(0usize, 0usize); SLOTS];
    let mut n = 0;
    for s in w.hal.shares.values() {
        if let Some(q) = s.posted_on {
            if w.tr.live(q) {
                if n == SLOTS {
                    break;
                }
                t[n] = (s.ptr, s.ptr + s.len);
                n += 1;
            }
        }
    }
    RANGES.with(|r| r.set(t));
    N.with(|c| c.set(n));
    ENABLED.with(|e| e.set(true));
}

/// Was (part of) this host range freed while it was posted to the device?
pub fn freed_while_posted(ptr: usize, len: usize) -> bool {
    let k = NFREED.with(|c| c.get());
    if k == 0 {
        return false;
    }
    FREED.with(|f| f.get().iter().take(k).any(|(s, e)| *s < ptr + len && ptr < *e))
}

/// Arms the fault: the next zero-initialised heap allocation of exactly `size` bytes made by this
/// thread fails (returns null).
pub fn arm_zeroed_failure(size: usize) {
    FAIL_FIRED.with(|f| f.set(false));
    FAIL_ZEROED.with(|c| c.set(size));
}

/// Disarms the fault and tells whether it fired.
pub fn disarm_zeroed_failure() -> bool {
    FAIL_ZEROED.with(|c| c.set(0));
    FAIL_FIRED.with(|f| f.replace(false))
}

pub fn disable() {
    let _ = FAIL_ZEROED.try_with(|c| c.set(0));
    let _ = NFREED.try_with(|c| c.set(0));
    let _ = ENABLED.try_with(|e| e.set(false));
    let _ = N.try_with(|c| c.set(0));
    let _ = HIT.try_with(|h| h.set((0, 0)));
}

pub fn poll(w: &mut World) {
    let hit = HIT.with(|h| h.replace((0, 0)));
    if hit.1 != 0 && w.cfg.heap_watch {
        w.violation(
            "posted-buffer-freed",
            "heap",
            format!(
                "a heap block of {} bytes overlapping a driver-owned buffer that is still posted to \
                 a live queue was freed",
                hit.1
            ),
        );
    }
}
