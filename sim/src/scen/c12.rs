//! C12: PCI bus helpers - BAR sizing without side effects, unique configuration addressing,
//! bus enumeration, capability walking - against a stateful reference PCI function behind both
//! configuration access paths (direct trait implementation; real MmioCam over the MMIO seam).

use crate::pcidev::*;
use crate::world::*;
use virtio_drivers::transport::pci::bus::{BarInfo, Cam, ConfigurationAccess, DeviceFunction, HeaderType, MemoryBarType, PciError, PciRoot};

fn df_of(t: (u8, u8, u8)) -> DeviceFunction {
    DeviceFunction { bus: t.0, device: t.1, function: t.2 }
}

trait RootFn<R> {
    fn call<C: ConfigurationAccess>(self, root: PciRoot<C>) -> R;
}

fn with_root<R>(f: impl RootFn<R>) -> R {
    match choose(3) {
        0 => f.call(PciRoot::new(SimCam)),
        1 => f.call(PciRoot::new(mmio_cam(false))),
        _ => f.call(PciRoot::new(mmio_cam(true))),
    }
}

pub fn pow2(lo: u32, hi: u32) -> u64 {
    1u64 << (lo + choose((hi - lo + 1) as u64) as u32)
}

/// Draws a BAR layout for `f`; returns the expected `bars()` result.
pub fn gen_bars(f: &mut PciFunc) -> Result<[Option<BarInfo>; 6], PciError> {
    let mut exp: [Option<BarInfo>; 6] = Default::default();
    let mut err = None;
    let mut i = 0;
    while i < 6 {
        let k = choose(8);
        let prefetch = flip(1, 3);
        match k {
            0 | 1 => {
                f.set_bar(i, BarKind::None, 0, false, 0);
            }
            2 | 3 => {
                let below = flip(1, 4);
                let size = if below { pow2(4, 19) } else { pow2(4, 31) };
                let addr = if flip(1, 4) { 0 } else { size.wrapping_mul(1 + choose(7)) & 0xffff_ffff };
                f.set_bar(i, if below { BarKind::Below1M } else { BarKind::Mem32 }, size, prefetch, addr);
                exp[i] = Some(BarInfo::Memory { address_type: if below { MemoryBarType::Below1MiB } else { MemoryBarType::Width32 }, prefetchable: prefetch, address: (f.bar_regs[i] & 0xffff_fff0) as u64, size });
            }
            4 | 5 => {
                let size = if flip(1, 3) { pow2(32, 63) } else { pow2(4, 40) };
                let addr = if flip(1, 4) { 0 } else { size.wrapping_mul(1 + choose(5)) };
                if i == 5 {
                    // a 64-bit type encoding in the last slot is malformed
                    f.set_bar(i, BarKind::Mem64, size, prefetch, addr);
                    if err.is_none() {
                        err = Some(PciError::InvalidBarType);
                    }
                } else {
                    f.set_bar(i, BarKind::Mem64, size, prefetch, addr);
                    let address = ((f.bar_regs[i] & 0xffff_fff0) as u64) | ((f.bar_regs[i + 1] as u64) << 32);
                    exp[i] = Some(BarInfo::Memory { address_type: MemoryBarType::Width64, prefetchable: prefetch, address, size });
                    i += 1;
                }
            }
            6 => {
                let size = pow2(2, 20);
                let addr = if flip(1, 4) { 0 } else { size.wrapping_mul(1 + choose(7)) & 0xffff_ffff };
                f.set_bar(i, BarKind::Io, size, false, addr);
                exp[i] = Some(BarInfo::IO { address: f.bar_regs[i] & 0xffff_fffc, size: size as u32 });
            }
            _ => {
                let size = pow2(4, 31);
                f.set_bar(i, BarKind::Reserved3, size, prefetch, 0);
                if err.is_none() {
                    err = Some(PciError::InvalidBarType);
                }
            }
        }
        i += 1;
    }
    match err {
        Some(e) => Err(e),
        None => Ok(exp),
    }
}

struct BarProbe {
    df: (u8, u8, u8),
    expected: Result<[Option<BarInfo>; 6], PciError>,
}

impl RootFn<()> for BarProbe {
    fn call<C: ConfigurationAccess>(self, mut root: PciRoot<C>) {
        let df = df_of(self.df);
        let snapshot = || with(|w| w.bus.pci.as_ref().map(|p| (p.funcs[&self.df].command, p.funcs[&self.df].bar_regs)).unwrap());
        let before = snapshot();
        let whole = flip(1, 2);
        if whole {
            let r = crate::runner::guarded(|| root.bars(df));
            let after = snapshot();
            oplog(|| format!("bars() -> {r:?}"));
            match r {
                Err((m, l)) => violation("bar-probe-panic", "bars", format!("{m} at {l}")),
                Ok(r) => {
                    match (&r, &self.expected) {
                        (Ok(a), Ok(b)) if a == b => nontrivial(),
                        (Err(_), Err(_)) => nontrivial(),
                        _ => violation("bar-info-result", "bars", format!("bars() returned {r:?}, the function's BARs are {:?}", self.expected)),
                    }
                }
            }
            if after != before {
                violation("bar-probe-side-effect", "bars", format!("command/BAR registers before {before:x?}, after {after:x?}"));
            }
        } else {
            for i in 0..6u8 {
                let kind = with(|w| w.bus.pci.as_ref().unwrap().funcs[&self.df].bar_kind[i as usize]);
                let r = crate::runner::guarded(|| root.bar_info(df, i));
                let after = snapshot();
                oplog(|| format!("bar_info({i}) [{kind:?}] -> {r:?}"));
                if after != before {
                    violation("bar-probe-side-effect", &format!("bar_info/{kind:?}"), format!("probing BAR {i}: command/BAR registers before {before:x?}, after {after:x?}"));
                    break;
                }
                let r = match r {
                    Err((m, l)) => {
                        violation("bar-probe-panic", "bar_info", format!("BAR {i}: {m} at {l}"));
                        break;
                    }
                    Ok(r) => r,
                };
                match kind {
                    BarKind::Mem64Hi => {} // upper half probed on its own: result meaningless, only side effects matter
                    BarKind::Reserved3 => {
                        if r != Err(PciError::InvalidBarType) {
                            violation("bar-info-result", "bar_info", format!("BAR {i} with reserved type bits: {r:?}"));
                        }
                    }
                    BarKind::Mem64 if i == 5 => {
                        if r != Err(PciError::InvalidBarType) {
                            violation("bar-info-result", "bar_info", format!("64-bit type in the last BAR slot: {r:?}"));
                        }
                    }
                    _ => {
                        if let Ok(exp) = &self.expected {
                            if r.as_ref().ok() != Some(&exp[i as usize]) {
                                violation("bar-info-result", "bar_info", format!("BAR {i}: returned {r:?}, function has {:?}", exp[i as usize]));
                            } else {
                                nontrivial();
                            }
                        } else {
                            // expectations per slot are only kept for well-formed layouts; recompute this slot
                            let f = with(|w| w.bus.pci.as_ref().unwrap().funcs[&self.df].clone());
                            let want = match kind {
                                BarKind::None => None,
                                BarKind::Io => Some(BarInfo::IO { address: f.bar_regs[i as usize] & 0xffff_fffc, size: f.bar_size[i as usize] as u32 }),
                                BarKind::Mem32 | BarKind::Below1M => Some(BarInfo::Memory {
                                    address_type: if kind == BarKind::Mem32 { MemoryBarType::Width32 } else { MemoryBarType::Below1MiB },
                                    prefetchable: f.bar_regs[i as usize] & 8 != 0,
                                    address: (f.bar_regs[i as usize] & 0xffff_fff0) as u64,
                                    size: f.bar_size[i as usize],
                                }),
                                _ => Some(BarInfo::Memory {
                                    address_type: MemoryBarType::Width64,
                                    prefetchable: f.bar_regs[i as usize] & 8 != 0,
                                    address: ((f.bar_regs[i as usize] & 0xffff_fff0) as u64) | ((f.bar_regs[i as usize + 1] as u64) << 32),
                                    size: f.bar_size[i as usize],
                                }),
                            };
                            if r != Ok(want.clone()) {
                                violation("bar-info-result", "bar_info", format!("BAR {i}: returned {r:?}, function has {want:?}"));
                            }
                        }
                    }
                }
            }
        }
    }
}

pub fn bars_run() {
    let df = (choose(256) as u8, choose(32) as u8, choose(8) as u8);
    let mut f = PciFunc::new(0x1af4, 0x1042);
    let expected = gen_bars(&mut f);
    f.command = choose(0x800) as u16;
    f.guard_bar_writes = true;
    oplog(|| format!("function {df:?} command {:#x} BARs {:?} sizes {:x?} regs {:x?}", f.command, f.bar_kind, f.bar_size, f.bar_regs));
    with(|w| {
        w.cfg.device_active = false;
        let p = w.bus.pci.get_or_insert_with(Default::default);
        p.funcs.insert(df, f);
    });
    with_root(BarProbe { df, expected });
}

// ---------------------------------------------------------------------------------------------

struct Addressing;

impl RootFn<()> for Addressing {
    fn call<C: ConfigurationAccess>(self, mut root: PciRoot<C>) {
        for _ in 0..(8 + choose(64)) {
            let df = (choose(256) as u8, choose(32) as u8, choose(8) as u8);
            let reg = (choose(64) * 4) as u8;
            with(|w| w.bus.pci.as_mut().unwrap().log = Some(Vec::new()));
            let write = flip(1, 3);
            let val = choose(u32::MAX as u64) as u32;
            if write {
                root.configuration_access.write_word(df_of(df), reg, val);
            } else {
                let _ = root.configuration_access.read_word(df_of(df), reg);
            }
            let log = with(|w| w.bus.pci.as_mut().unwrap().log.take().unwrap());
            if log.len() != 1 || log[0].df != df || log[0].reg != reg || log[0].write != write || (write && log[0].value != val) {
                violation(
                    "config-address-decoding",
                    "cam",
                    format!("{} of {df:?} register {reg:#x} arrived at the bus as {:?}", if write { "write" } else { "read" }, log.iter().map(|a| (a.df, a.reg, a.write)).collect::<Vec<_>>()),
                );
                return;
            }
        }
        nontrivial();
    }
}

pub fn addressing_run() {
    with(|w| {
        w.cfg.device_active = false;
        w.bus.pci.get_or_insert_with(Default::default);
    });
    // only the memory-mapped mechanisms encode addresses
    if flip(1, 2) {
        Addressing.call(PciRoot::new(mmio_cam(false)));
    } else {
        Addressing.call(PciRoot::new(mmio_cam(true)));
    }
}

/// Complete sweep of `Cam::cam_offset` (a pure function): decode(encode(x)) == x for all
/// 256 x 32 x 8 x 64 addresses under both mechanisms, and every offset inside the window.
pub fn cam_sweep(_t: crate::runner::Tier) -> crate::runner::ExtraResult {
    let mut n = 0u64;
    let mut violations = Vec::new();
    for (cam, ecam) in [(Cam::MmioCam, false), (Cam::Ecam, true)] {
        let size = if ecam { 0x1000_0000u32 } else { 0x100_0000 };
        for bus in 0..=255u8 {
            for dev in 0..32u8 {
                for func in 0..8u8 {
                    for r in 0..64u8 {
                        let reg = r * 4;
                        let off = cam.cam_offset(DeviceFunction { bus, device: dev, function: func }, reg);
                        n += 1;
                        let dec = if ecam { ((off >> 20) as u8, ((off >> 15) & 0x1f) as u8, ((off >> 12) & 7) as u8, (off & 0xfff) as u32) } else { ((off >> 16) as u8, ((off >> 11) & 0x1f) as u8, ((off >> 8) & 7) as u8, (off & 0xff) as u32) };
                        if dec != (bus, dev, func, reg as u32) || off >= size || off % 4 != 0 {
                            if violations.len() < 3 {
                                violations.push(("cam-offset".to_string(), format!("{cam:?}: ({bus},{dev},{func},{reg:#x}) -> offset {off:#x} decodes to {dec:?} (window {size:#x})")));
                            }
                        }
                    }
                }
            }
        }
    }
    crate::runner::ExtraResult { evaluations: n, exhaustive: true, description: "Cam::cam_offset for all 256x32x8x64 (bus, device, function, register) tuples under CAM and ECAM: decode(encode(x)) = x (hence distinct), inside the window, word aligned. Pure function: swept, not simulated.".into(), violations }
}

// ---------------------------------------------------------------------------------------------

struct Enumerate {
    bus: u8,
    present: Vec<((u8, u8, u8), (u16, u16, u8, u8, u8, u8, u8))>,
}

impl RootFn<()> for Enumerate {
    fn call<C: ConfigurationAccess>(self, root: PciRoot<C>) {
        let got: Vec<_> = root.enumerate_bus(self.bus).collect();
        oplog(|| format!("enumerate_bus({}) -> {} functions, {} present", self.bus, got.len(), self.present.len()));
        if got.len() != self.present.len() {
            violation("bus-enumeration", "enumerate_bus", format!("reported {:?}, present {:?}", got.iter().map(|g| (g.0.device, g.0.function)).collect::<Vec<_>>(), self.present.iter().map(|p| (p.0.1, p.0.2)).collect::<Vec<_>>()));
            return;
        }
        for ((gdf, info), (df, (ven, devid, class, sub, pif, rev, hdr))) in got.iter().zip(self.present.iter()) {
            let ht = match hdr & 0x7f {
                0 => HeaderType::Standard,
                1 => HeaderType::PciPciBridge,
                2 => HeaderType::PciCardbusBridge,
                v => HeaderType::Unrecognised(v),
            };
            if (gdf.bus, gdf.device, gdf.function) != *df || info.vendor_id != *ven || info.device_id != *devid || info.class != *class || info.subclass != *sub || info.prog_if != *pif || info.revision != *rev || info.header_type != ht {
                violation("bus-enumeration", "enumerate_bus", format!("function {df:?}: reported {gdf} {info:?}; configuration space holds vendor {ven:#x} device {devid:#x} class {class:#x}.{sub:#x}.{pif:#x} rev {rev:#x} header {hdr:#x}"));
                return;
            }
        }
        if !self.present.is_empty() {
            nontrivial();
        }
    }
}

pub fn enumerate_run() {
    let bus = choose(256) as u8;
    let density = choose(4);
    let mut present = Vec::new();
    with(|w| {
        w.cfg.device_active = false;
        let mut funcs = Vec::new();
        for dev in 0..32u8 {
            for func in 0..8u8 {
                let here = match density {
                    0 => false,
                    1 => w.tape.choose(64) == 0,
                    2 => w.tape.choose(4) == 0,
                    _ => w.tape.choose(8) != 0,
                };
                if here {
                    let ven = w.tape.choose(0xffff) as u16;
                    let devid = w.tape.choose(0x10000) as u16;
                    let (class, sub, pif, rev, hdr) = (w.tape.choose(256) as u8, w.tape.choose(256) as u8, w.tape.choose(256) as u8, w.tape.choose(256) as u8, [0u8, 1, 2, 0x80, 0x81, 0x7f, 5][w.tape.choose(7) as usize]);
                    let mut f = PciFunc::new(ven, devid);
                    f.raw[8] = rev;
                    f.raw[9] = pif;
                    f.raw[10] = sub;
                    f.raw[11] = class;
                    f.raw[14] = hdr;
                    funcs.push(((bus, dev, func), f));
                    present.push(((bus, dev, func), (ven, devid, class, sub, pif, rev, hdr)));
                }
            }
        }
        // a function on another bus must not show up
        funcs.push(((bus.wrapping_add(1), 0, 0), PciFunc::new(0x1234, 0x5678)));
        let p = w.bus.pci.get_or_insert_with(Default::default);
        for (df, f) in funcs {
            p.funcs.insert(df, f);
        }
    });
    with_root(Enumerate { bus, present });
}

// ---------------------------------------------------------------------------------------------

struct CapWalk {
    df: (u8, u8, u8),
    expected: Vec<(u8, u8, u16)>,
}

impl RootFn<()> for CapWalk {
    fn call<C: ConfigurationAccess>(self, root: PciRoot<C>) {
        let got: Vec<(u8, u8, u16)> = root.capabilities(df_of(self.df)).map(|c| (c.offset, c.id, c.private_header)).collect();
        oplog(|| format!("capabilities -> {got:x?}"));
        if got != self.expected {
            violation("capability-walk", "capabilities", format!("walked {got:x?}, the list is {:x?}", self.expected));
        } else if got.len() >= 2 {
            nontrivial();
        }
    }
}

pub fn caps_run() {
    let df = (choose(256) as u8, choose(32) as u8, choose(8) as u8);
    let mut f = PciFunc::new(0x1af4, 0x1041);
    // well-formed list: distinct 4-aligned offsets >= 0x40, in arbitrary order, terminated by 0
    // mostly short lists; sometimes long ones, up to every dword slot of the device-specific area
    let n = match choose(8) {
        0 => 12 + choose(37) as usize,
        1 => 48,
        _ => choose(12) as usize,
    };
    if n > 24 {
        probe("capability_list_longer_than_24");
    }
    let mut slots: Vec<u8> = (0..48u8).map(|i| 0x40 + 4 * i).collect();
    let mut offs = Vec::new();
    for _ in 0..n {
        let i = choose(slots.len() as u64) as usize;
        offs.push(slots.remove(i));
    }
    let has_list = n > 0 && !flip(1, 8);
    let mut expected = Vec::new();
    for (k, o) in offs.iter().enumerate() {
        let id = choose(256) as u8;
        let ph = choose(0x10000) as u16;
        let next = if k + 1 < offs.len() { offs[k + 1] } else { 0 };
        f.raw[*o as usize] = id;
        f.raw[*o as usize + 1] = next;
        f.raw[*o as usize + 2..*o as usize + 4].copy_from_slice(&ph.to_le_bytes());
        expected.push((*o, id, ph));
    }
    if has_list {
        f.raw[6] |= 0x10;
        // the two low bits of the capabilities pointer are reserved and must be masked
        f.raw[0x34] = offs[0] | choose(4) as u8;
    } else {
        f.raw[6] &= !0x10;
        f.raw[0x34] = offs.first().copied().unwrap_or(0);
        expected.clear();
    }
    oplog(|| format!("capability list at {offs:x?}, status bit {has_list}"));
    with(|w| {
        w.cfg.device_active = false;
        w.bus.pci.get_or_insert_with(Default::default).funcs.insert(df, f);
    });
    with_root(CapWalk { df, expected });
}
