//! C17 / C18: vsock streams under credit-based flow control, connection state machine and
//! isolation. A reference model of the connection table and of both credit windows is stepped in
//! lock step with the real `VsockConnectionManager`; simulated peers honour (or, in the fault
//! batches, violate) the advertised credit.

use crate::devices::vsock::*;
use crate::hal::SimHal;
use crate::world::*;
use crate::zoo::{self, Kind, SOCK_RX, TKind, TransportFn};
use std::collections::VecDeque;
use virtio_drivers::Error;
use virtio_drivers::device::socket::{DisconnectReason, SocketError, VirtIOSocket, VsockAddr, VsockConnectionManager, VsockEventType};
use virtio_drivers::transport::Transport;

const GUEST: u64 = 0x3_0000_0042;
const OP_REQUEST: u16 = 1;
const OP_RESPONSE: u16 = 2;
const OP_RST: u16 = 3;
const OP_SHUTDOWN: u16 = 4;
const OP_RW: u16 = 5;
const OP_CREDIT_UPDATE: u16 = 6;
const OP_CREDIT_REQUEST: u16 = 7;

fn se(e: SocketError) -> Error {
    Error::SocketDeviceError(e)
}

fn to_driver_byte(id: u32, pos: u64) -> u8 {
    (id as u8).wrapping_mul(31).wrapping_add((pos as u8).wrapping_mul(7)).wrapping_add((pos >> 8) as u8)
}
fn to_peer_byte(id: u32, pos: u64) -> u8 {
    (id as u8).wrapping_mul(17).wrapping_add((pos as u8).wrapping_mul(3)).wrapping_add((pos >> 8) as u8).wrapping_add(0x80)
}

/// Driver-side reference model of one connection.
#[derive(Clone, Debug)]
struct MConn {
    peer: (u64, u32),
    local: u32,
    established: bool,
    peer_shutdown: bool,
    buf: VecDeque<u8>,
    cap: u32,
    read_by_app: u32,
    tx_cnt: u32,
    adv: (u32, u32),
    pending_cr: bool,
    /// a packet from an earlier life of this (peer, port) pair was applied to this connection
    tainted: bool,
    /// a connection request was accepted onto this connection while it still held unread data
    rerequested: bool,
}

/// What a peer knows about one of its connections.
#[derive(Clone, Debug)]
struct PConn {
    peer: (u64, u32),
    local: u32,
    id: u32,
    tx_pos: u64,
    rx_pos: u64,
    cap: u32,
    /// stream position up to which the peer's application has consumed
    consumed_pos: u64,
    /// stream positions at which the current connection started (counters are per connection)
    base_rx: u64,
    base_tx: u64,
    /// the peer believes the connection is established
    open: bool,
    epoch: u32,
    /// the driver's (buf_alloc, fwd_cnt) as last seen in a packet from the driver
    seen: Option<(u32, u32)>,
    /// the driver has requested this connection (the peer may respond)
    got_request: bool,
}

impl PConn {
    /// A new connection starts: its counters start from zero.
    fn restart(&mut self) {
        self.consumed_pos = self.rx_pos;
        self.base_rx = self.rx_pos;
        self.base_tx = self.tx_pos;
        self.seen = None;
        self.open = false;
        self.got_request = false;
        self.epoch += 1;
    }
    fn tx_cnt(&self) -> u32 {
        (self.tx_pos - self.base_tx) as u32
    }
    fn hdr(&self, op: u16, len: u32) -> Pkt {
        Pkt {
            src_cid: self.peer.0,
            dst_cid: GUEST,
            src_port: self.peer.1,
            dst_port: self.local,
            len,
            type_: 1,
            op,
            flags: 0,
            buf_alloc: self.cap,
            fwd_cnt: (self.consumed_pos - self.base_rx) as u32,
            payload: vec![],
            payload_len: 0,
        }
    }
}

#[derive(Clone, Debug, PartialEq)]
struct ExpPkt {
    op: u16,
    local: u32,
    peer: (u64, u32),
    payload_len: u32,
    flags: u32,
    buf_alloc: u32,
    fwd_cnt: u32,
}

struct Model {
    cap: u32,
    listening: Vec<u32>,
    conns: Vec<MConn>,
    peers: Vec<PConn>,
    next_id: u32,
    /// epoch of the sending peer connection for every packet in flight, in sending order
    inflight_epochs: VecDeque<u32>,
    /// sending peer connection for every packet in flight, in sending order
    inflight_peers: VecDeque<usize>,
    /// `check_tx` is judging one of several packets the driver handled in a single call: it takes
    /// only what this packet prescribes from the front of what was transmitted and leaves the rest
    /// for the packets that follow.
    partial: bool,
}

impl Model {
    fn find(&self, peer: (u64, u32), local: u32) -> Option<usize> {
        self.conns.iter().position(|c| c.peer == peer && c.local == local)
    }
    fn pfind(&mut self, peer: (u64, u32), local: u32) -> usize {
        if let Some(i) = self.peers.iter().position(|c| c.peer == peer && c.local == local) {
            return i;
        }
        self.next_id += 1;
        self.peers.push(PConn { peer, local, id: self.next_id, tx_pos: 0, rx_pos: 0, cap: 0, consumed_pos: 0, base_rx: 0, base_tx: 0, open: false, epoch: 0, seen: None, got_request: false });
        self.peers.len() - 1
    }
    fn exp(&self, c: &MConn, op: u16, payload_len: u32, flags: u32) -> ExpPkt {
        ExpPkt { op, local: c.local, peer: c.peer, payload_len, flags, buf_alloc: c.cap, fwd_cnt: c.read_by_app }
    }
    fn peer_free(c: &MConn) -> u32 {
        let inflight = c.tx_cnt.wrapping_sub(c.adv.1);
        c.adv.0.saturating_sub(inflight)
    }
}

type Mgr<T> = VsockConnectionManager<SimHal, T, SOCK_RX>;

struct Run {
    cap: u32,
    dishonest: bool,
    garbage: bool,
}

fn posted_rx(w: &World) -> usize {
    w.avail_idx_mem(0).unwrap_or(0).wrapping_sub(w.dq[0].used_idx) as usize
}

fn addr(p: (u64, u32)) -> VsockAddr {
    VsockAddr { cid: p.0, port: p.1 }
}

/// Compares what the driver transmitted since the last call with what the model says it must
/// have transmitted, and lets the peers learn from it.
///
/// The protocol also permits packets nobody asked for, and a driver that sends them keeps every
/// clause of C17/C18: a CREDIT_UPDATE for a connection it has, carrying its true allocation and
/// forwarded count (it only tells the peer earlier what it would learn anyway), and a RST towards
/// an address it has no connection with (the usual answer to a packet for an unknown connection).
/// Such extras are validated, learned from and otherwise ignored.
fn check_tx(m: &mut Model, site: &str, want: &[ExpPkt]) {
    let all: Vec<Pkt> = with(|w| w.personality::<VsockDev>().tx.drain(..).collect());
    let as_exp = |g: &Pkt| ExpPkt { op: g.op, local: g.src_port, peer: (g.dst_cid, g.dst_port), payload_len: g.len, flags: g.flags, buf_alloc: g.buf_alloc, fwd_cnt: g.fwd_cnt };
    // (transmitted packet, what the protocol prescribes for it)
    let mut pairs: Vec<(Pkt, ExpPkt)> = Vec::new();
    let mut unexpected: Vec<u16> = Vec::new();
    let mut j = 0;
    // payload bytes of want[j] (a data packet) that earlier packets have already carried: one send
    // may go out as several data packets ("for any packetisation")
    let mut carried: u32 = 0;
    let mut rest: Vec<Pkt> = Vec::new();
    for g in all {
        if m.partial && j == want.len() {
            rest.push(g);
            continue;
        }
        let gg = as_exp(&g);
        if j < want.len() && gg.op == want[j].op {
            let w = &want[j];
            if w.op == OP_RW && gg.local == w.local && gg.peer == w.peer && g.len > 0 && carried + g.len < w.payload_len {
                // a part of the prescribed data packet; more follows
                carried += g.len;
                pairs.push((g, ExpPkt { payload_len: gg.payload_len, ..w.clone() }));
                probe("send_split_into_several_packets");
                continue;
            }
            let e = if w.op == OP_RW && carried > 0 { ExpPkt { payload_len: w.payload_len - carried, ..w.clone() } } else { w.clone() };
            carried = 0;
            j += 1;
            pairs.push((g, e));
            continue;
        }
        let extra_ok = match g.op {
            OP_CREDIT_UPDATE => match m.find(gg.peer, gg.local) {
                Some(i) => gg == m.exp(&m.conns[i], OP_CREDIT_UPDATE, 0, 0) && g.payload.is_empty(),
                None => false,
            },
            OP_RST => m.find(gg.peer, gg.local).is_none() && g.len == 0 && g.payload.is_empty(),
            _ => false,
        };
        if extra_ok {
            probe("unsolicited_packet_accepted");
            if g.op == OP_CREDIT_UPDATE {
                let pi = m.pfind(gg.peer, gg.local);
                if m.peers[pi].open {
                    m.peers[pi].seen = Some((g.buf_alloc, g.fwd_cnt));
                }
            }
            continue;
        }
        unexpected.push(g.op);
        pairs.push((g, ExpPkt { op: 0xffff, local: 0, peer: (0, 0), payload_len: 0, flags: 0, buf_alloc: 0, fwd_cnt: 0 }));
    }
    if !rest.is_empty() {
        with(|w| {
            let d = w.personality::<VsockDev>();
            for g in rest.into_iter().rev() {
                d.tx.push_front(g);
            }
        });
    }
    if j != want.len() || carried != 0 || !unexpected.is_empty() {
        violation(
            "vsock-packets",
            site,
            format!("{site}: driver transmitted ops {:?}, protocol prescribes {:?}", pairs.iter().map(|p| p.0.op).collect::<Vec<_>>(), want.iter().map(|p| p.op).collect::<Vec<_>>()),
        );
        return;
    }
    for (g, e) in pairs.iter().map(|p| (&p.0, &p.1)) {
        let gg = ExpPkt { op: g.op, local: g.src_port, peer: (g.dst_cid, g.dst_port), payload_len: g.len, flags: g.flags, buf_alloc: g.buf_alloc, fwd_cnt: g.fwd_cnt };
        if gg != *e {
            violation("vsock-packet-fields", site, format!("{site}: driver transmitted {gg:?}, expected {e:?} (buf_alloc = configured capacity, fwd_cnt = bytes the application has read)"));
            return;
        }
        // peer learns
        let pi = m.pfind(e.peer, e.local);
        if g.op == OP_REQUEST {
            m.peers[pi].restart();
            m.peers[pi].got_request = true;
        }
        // A peer that has closed or re-requested the connection is waiting for the driver's
        // RESPONSE (or REQUEST): credit carried by other packets still in flight belongs to the
        // previous life of the (peer, port) pair and an honest peer does not act on it.
        if m.peers[pi].open || g.op == OP_REQUEST || g.op == OP_RESPONSE {
            m.peers[pi].seen = Some((g.buf_alloc, g.fwd_cnt));
        }
        match g.op {
            OP_RESPONSE => m.peers[pi].open = true,
            OP_RST | OP_SHUTDOWN => m.peers[pi].open = false,
            _ => {}
        }
        if g.op == OP_RW {
            let id = m.peers[pi].id;
            let pos = m.peers[pi].rx_pos;
            for (k, b) in g.payload.iter().enumerate() {
                if *b != to_peer_byte(id, pos + k as u64) {
                    violation("vsock-tx-data", site, format!("byte {} of the stream to peer {:?} is {:#x}, caller sent {:#x}", pos + k as u64, e.peer, b, to_peer_byte(id, pos + k as u64)));
                    return;
                }
            }
            m.peers[pi].rx_pos += g.payload.len() as u64;
        }
    }
}

impl TransportFn<()> for Run {
    fn call<T: Transport + 'static>(self, t: T) {
        let sock = match VirtIOSocket::<SimHal, T, SOCK_RX>::new(t) {
            Ok(s) => s,
            Err(e) => return violation("vsock-new-failed", "new", format!("{e:?}")),
        };
        if sock.guest_cid() != GUEST {
            violation("vsock-guest-cid", "guest_cid", format!("{:#x}", sock.guest_cid()));
        }
        with(|w| w.check_no_lost_wakeup("vsock-new"));
        let mut mgr: Mgr<T> = VsockConnectionManager::new_with_capacity(sock, self.cap);
        let mut m = Model { cap: self.cap, listening: vec![], conns: vec![], peers: vec![], next_id: 0, inflight_epochs: VecDeque::new(), inflight_peers: VecDeque::new(), partial: false };
        let peers_pool: [(u64, u32); 4] = [(2, 1000), (2, 1001), (7, 1000), (0xffff_ffff_0000_0005, 9)];
        let ports: [u32; 4] = [80, 81, 4321, 0xffff_fff0];
        let n_ops = 10 + choose(150);
        let mut total_read = 0u64;
        // Swarm: most runs concentrate on a few (peer, port) pairs so that connections get
        // established and carry data; the rest roam over all 16 pairs.
        let focus: Vec<((u64, u32), u32)> = (0..1 + choose(3)).map(|_| (peers_pool[choose(4) as usize], ports[choose(4) as usize])).collect();
        let focused = flip(3, 4);
        let mut script: VecDeque<u64> = VecDeque::new();
        if focused {
            // warm-up: listen, let each focus peer connect (or connect to it), poll until quiet
            for _ in 0..focus.len() {
                script.extend([0, 100, 19, 101, 19, 101, 19]);
            }
        }
        for step in 0..n_ops {
            if violated() {
                break;
            }
            let (peer, local) = if focused && (step < 7 * focus.len() as u64 || flip(5, 6)) {
                let f = focus[if step < 7 * focus.len() as u64 { (step / 7) as usize } else { choose(focus.len() as u64) as usize }];
                (f.0, f.1)
            } else {
                (peers_pool[choose(4) as usize], ports[choose(4) as usize])
            };
            let opk = match script.pop_front() {
                Some(k) => {
                    let _ = choose(20);
                    k
                }
                None => choose(20),
            };
            let forced_kind = match opk {
                100 => Some(0u64),
                101 => Some(5),
                _ => None,
            };
            let opk = if forced_kind.is_some() { 11 } else { opk };
            match opk {
                0 => {
                    mgr.listen(local);
                    if !m.listening.contains(&local) {
                        m.listening.push(local);
                    }
                    oplog(|| format!("listen({local})"));
                }
                1 => {
                    if flip(1, 3) {
                        mgr.unlisten(local);
                        m.listening.retain(|p| *p != local);
                        oplog(|| format!("unlisten({local})"));
                    }
                }
                2 | 3 => {
                    let r = mgr.connect(addr(peer), local);
                    oplog(|| format!("connect({peer:?}, {local}) -> {r:?}"));
                    if m.find(peer, local).is_some() {
                        if r != Err(se(SocketError::ConnectionExists)) {
                            violation("vsock-result", "connect", format!("duplicate connect returned {r:?}"));
                        }
                        check_tx(&mut m, "connect", &[]);
                    } else {
                        if r != Ok(()) {
                            violation("vsock-result", "connect", format!("{r:?}"));
                        }
                        let c = MConn { peer, local, established: false, peer_shutdown: false, buf: VecDeque::new(), cap: m.cap, read_by_app: 0, tx_cnt: 0, adv: (0, 0), pending_cr: false, tainted: false, rerequested: false };
                        let e = m.exp(&c, OP_REQUEST, 0, 0);
                        m.conns.push(c);
                        check_tx(&mut m, "connect", &[e]);
                    }
                }
                4..=6 => {
                    // local send
                    let n = match choose(4) {
                        0 => 1 + choose(8),
                        1 => 1 + choose(200),
                        _ => 1 + choose(3000),
                    } as usize;
                    let pi = m.pfind(peer, local);
                    let (id, pos) = (m.peers[pi].id, m.peers[pi].rx_pos);
                    let data: Vec<u8> = (0..n).map(|k| to_peer_byte(id, pos + k as u64)).collect();
                    let r = mgr.send(addr(peer), local, &data);
                    oplog(|| format!("send({peer:?}, {local}, {n} bytes) -> {r:?}"));
                    match m.find(peer, local) {
                        None => {
                            if r != Err(se(SocketError::NotConnected)) {
                                violation("vsock-result", "send", format!("send on unknown connection returned {r:?}"));
                            }
                            check_tx(&mut m, "send", &[]);
                        }
                        Some(i) => {
                            if m.conns[i].peer_shutdown {
                                if r != Err(se(SocketError::PeerSocketShutdown)) {
                                    violation("vsock-result", "send", format!("send after peer shutdown returned {r:?}"));
                                }
                                check_tx(&mut m, "send", &[]);
                            } else {
                                let free = Model::peer_free(&m.conns[i]);
                                if n as u64 > free as u64 {
                                    if r != Err(se(SocketError::InsufficientBufferSpaceInPeer)) {
                                        violation(
                                            "vsock-credit-exceeded",
                                            "send",
                                            format!("send of {n} bytes with {free} bytes of peer credit (buf_alloc {} fwd_cnt {} tx_cnt {}) returned {r:?}", m.conns[i].adv.0, m.conns[i].adv.1, m.conns[i].tx_cnt),
                                        );
                                    }
                                    let mut want = vec![];
                                    if !m.conns[i].pending_cr {
                                        want.push(m.exp(&m.conns[i], OP_CREDIT_REQUEST, 0, 0));
                                        m.conns[i].pending_cr = true;
                                        probe("credit_request_sent");
                                    }
                                    check_tx(&mut m, "send", &want);
                                } else {
                                    if r != Ok(()) {
                                        violation("vsock-result", "send", format!("send of {n} bytes within {free} bytes of credit returned {r:?}"));
                                    }
                                    let e = m.exp(&m.conns[i], OP_RW, n as u32, 0);
                                    m.conns[i].tx_cnt = m.conns[i].tx_cnt.wrapping_add(n as u32);
                                    check_tx(&mut m, "send", &[e]);
                                }
                            }
                        }
                    }
                }
                7..=9 => {
                    // local recv
                    let n = [0usize, 1, 7, 64, 600, 5000][choose(6) as usize];
                    let mut buf = vec![0u8; n];
                    let r = mgr.recv(addr(peer), local, &mut buf);
                    oplog(|| format!("recv({peer:?}, {local}, {n}) -> {r:?}"));
                    match m.find(peer, local) {
                        None => {
                            if r != Err(se(SocketError::NotConnected)) {
                                violation("vsock-result", "recv", format!("recv on unknown connection returned {r:?}"));
                            }
                            check_tx(&mut m, "recv", &[]);
                        }
                        Some(i) => {
                            let k = n.min(m.conns[i].buf.len());
                            let want: Vec<u8> = m.conns[i].buf.drain(..k).collect();
                            if r != Ok(k) || buf[..k] != want[..] {
                                violation(
                                    "vsock-stream-data",
                                    "recv",
                                    format!("recv returned {r:?}; the connection holds {k} readable bytes; data equal: {}", r.map(|x| x <= n && buf[..x.min(k)] == want[..x.min(k)]).unwrap_or(false)),
                                );
                            }
                            m.conns[i].read_by_app = m.conns[i].read_by_app.wrapping_add(k as u32);
                            total_read += k as u64;
                            if m.conns[i].peer_shutdown && m.conns[i].buf.is_empty() {
                                let e = m.exp(&m.conns[i], OP_RST, 0, 0);
                                m.conns.remove(i);
                                check_tx(&mut m, "recv", &[e]);
                            } else {
                                check_tx(&mut m, "recv", &[]);
                            }
                        }
                    }
                }
                10 => {
                    let which = choose(3);
                    let r = match which {
                        0 => mgr.update_credit(addr(peer), local),
                        1 => mgr.shutdown(addr(peer), local),
                        _ => mgr.force_close(addr(peer), local),
                    };
                    let name = ["update_credit", "shutdown", "force_close"][which as usize];
                    oplog(|| format!("{name}({peer:?}, {local}) -> {r:?}"));
                    match m.find(peer, local) {
                        None => {
                            if r != Err(se(SocketError::NotConnected)) {
                                violation("vsock-result", name, format!("{name} on unknown connection returned {r:?}"));
                            }
                            check_tx(&mut m, name, &[]);
                        }
                        Some(i) => match which {
                            0 => {
                                if m.conns[i].peer_shutdown {
                                    if r != Err(se(SocketError::PeerSocketShutdown)) {
                                        violation("vsock-result", name, format!("{r:?}"));
                                    }
                                    check_tx(&mut m, name, &[]);
                                } else {
                                    let e = m.exp(&m.conns[i], OP_CREDIT_UPDATE, 0, 0);
                                    check_tx(&mut m, name, &[e]);
                                }
                            }
                            1 => {
                                let e = m.exp(&m.conns[i], OP_SHUTDOWN, 0, 3);
                                check_tx(&mut m, name, &[e]);
                            }
                            _ => {
                                let e = m.exp(&m.conns[i], OP_RST, 0, 0);
                                m.conns.remove(i);
                                check_tx(&mut m, name, &[e]);
                            }
                        },
                    }
                }
                11..=14 => {
                    // a peer sends something
                    let pi = m.pfind(peer, local);
                    if m.peers[pi].cap == 0 {
                        m.peers[pi].cap = [0u32, 16, 300, 4096, 1 << 20][1 + choose(4) as usize];
                    }
                    // the peer's application consumes some of what it received
                    let avail = m.peers[pi].rx_pos - m.peers[pi].consumed_pos;
                    let take = choose(avail + 1);
                    m.peers[pi].consumed_pos += take;
                    if self.dishonest && flip(1, 6) {
                        // fault: the peer shrinks its window below what is in flight
                        m.peers[pi].cap = choose(8) as u32;
                        fault("peer_credit_shrinks");
                    }
                    let kind = choose(if self.garbage { 14 } else { 9 });
                    let kind = forced_kind.unwrap_or(kind);
                    // An honest peer starts a new life of a (peer, port) pair only once the driver
                    // has dealt with everything it sent in the previous one: otherwise answers to
                    // the old life are indistinguishable from answers to the new one (a protocol
                    // race, not a driver defect). The garbage batches do not have this restraint.
                    let waiting = !self.garbage && m.inflight_peers.contains(&pi);
                    let mut p = match kind {
                        0 if waiting && !m.peers[pi].open => m.peers[pi].hdr(OP_CREDIT_REQUEST, 0),
                        1 if waiting && !m.peers[pi].open && !m.peers[pi].got_request => m.peers[pi].hdr(OP_CREDIT_REQUEST, 0),
                        0 => {
                            if m.peers[pi].open && !self.garbage {
                                // an honest peer does not request a connection it believes open
                                m.peers[pi].hdr(OP_CREDIT_UPDATE, 0)
                            } else {
                                m.peers[pi].restart();
                                m.peers[pi].hdr(OP_REQUEST, 0)
                            }
                        }
                        1 => {
                            // an honest peer only responds to a request it has seen
                            if m.peers[pi].got_request || m.peers[pi].open || self.garbage {
                                m.peers[pi].open |= m.peers[pi].got_request;
                                m.peers[pi].hdr(OP_RESPONSE, 0)
                            } else {
                                m.peers[pi].restart();
                                m.peers[pi].hdr(OP_REQUEST, 0)
                            }
                        }
                        2 => {
                            m.peers[pi].open = false;
                            m.peers[pi].hdr(if flip(1, 2) { OP_RST } else { OP_SHUTDOWN }, 0)
                        }
                        3 => m.peers[pi].hdr(OP_CREDIT_UPDATE, 0),
                        4 => m.peers[pi].hdr(OP_CREDIT_REQUEST, 0),
                        5..=8 => {
                            // data
                            let max = (SOCK_RX - HDR) as u32;
                            let mut n = 1 + choose(if flip(1, 2) { 16 } else { max as u64 }) as u32;
                            let honest_limit = match m.peers[pi].seen {
                                Some((alloc, fwd)) => alloc.saturating_sub(m.peers[pi].tx_cnt().wrapping_sub(fwd)),
                                None => 0,
                            };
                            let honest_limit = if m.peers[pi].open || self.garbage { honest_limit } else { 0 };
                            if !(self.dishonest && flip(1, 3)) {
                                n = n.min(honest_limit);
                            } else if n > honest_limit {
                                fault("peer_credit_exhausted");
                            }
                            if n == 0 {
                                m.peers[pi].hdr(OP_CREDIT_REQUEST, 0)
                            } else {
                                let mut p = m.peers[pi].hdr(OP_RW, n);
                                let (id, pos) = (m.peers[pi].id, m.peers[pi].tx_pos);
                                p.payload = (0..n as u64).map(|k| to_driver_byte(id, pos + k)).collect();
                                m.peers[pi].tx_pos += n as u64;
                                p
                            }
                        }
                        9 => {
                            fault("peer_invalid_op");
                            m.peers[pi].hdr(0, 0)
                        }
                        10 => {
                            fault("peer_invalid_op");
                            m.peers[pi].hdr(8 + choose(100) as u16, 0)
                        }
                        11 => {
                            // control packet with payload
                            fault("peer_invalid_op");
                            let mut p = m.peers[pi].hdr([OP_REQUEST, OP_RESPONSE, OP_RST, OP_CREDIT_UPDATE][choose(4) as usize], 3);
                            p.payload = vec![1, 2, 3];
                            p
                        }
                        12 => {
                            // wrong destination CID
                            fault("peer_unknown_connection");
                            let mut p = m.peers[pi].hdr([OP_REQUEST, OP_RW, OP_RST][choose(3) as usize], 0);
                            p.dst_cid = GUEST ^ (1 << choose(34));
                            p
                        }
                        _ => {
                            // header announces more payload than the packet carries
                            fault("response_garbage");
                            let mut p = m.peers[pi].hdr(OP_RW, 400);
                            p.payload = vec![9; 5];
                            p
                        }
                    };
                    p.payload_len = p.payload.len();
                    let bytes = p.encode();
                    oplog(|| format!("peer {peer:?} -> port {local}: op {} len {} payload {} buf_alloc {} fwd_cnt {}", p.op, p.len, p.payload.len(), p.buf_alloc, p.fwd_cnt));
                    m.inflight_epochs.push_back(m.peers[pi].epoch);
                    m.inflight_peers.push_back(pi);
                    with(|w| {
                        w.personality::<VsockDev>().outbound.push_back(bytes);
                        w.run_device(2);
                    });
                }
                _ => {
                    // poll
                    let mut next = with(|w| w.personality::<VsockDev>().delivered.front().cloned());
                    // Sometimes the blocking form: wait_for_event() polls until a packet produces
                    // an event or an error. Only called when it can return: the next packet - one
                    // already delivered, or one the device still has to deliver while the driver
                    // waits - is one the protocol says is reported.
                    let upcoming = next.clone().or_else(|| with(|w| w.personality::<VsockDev>().outbound.front().cloned()));
                    let blocking = match &upcoming {
                        Some(raw) => Pkt::decode(raw).is_some_and(|p| yields_result(&m, &p)) && flip(1, 4),
                        None => false,
                    };
                    let rx_avail_before = with(|w| w.avail_idx_mem(0).unwrap_or(0));
                    let r = if blocking {
                        probe(if next.is_some() { "wait_for_event_ready" } else { "wait_for_event_waits" });
                        let r = mgr.wait_for_event().map(Some);
                        next = with(|w| w.personality::<VsockDev>().delivered.front().cloned());
                        if next.is_none() && !violated() {
                            violation("vsock-spurious-event", "wait_for_event", format!("nothing was delivered but wait_for_event returned {r:?}"));
                        }
                        r
                    } else {
                        mgr.poll()
                    };
                    oplog(|| format!("{} -> {r:?}", if blocking { "wait_for_event" } else { "poll" }));
                    match next {
                        None => {
                            if r != Ok(None) {
                                violation("vsock-spurious-event", "poll", format!("nothing was delivered but poll returned {r:?}"));
                            }
                            check_tx(&mut m, "poll", &[]);
                        }
                        Some(_) => {
                            // One call may deal with several packets as long as all but the last
                            // are ones the protocol handles silently: every receive buffer handed
                            // back to the device is one packet consumed (at least the first).
                            let handed_back = with(|w| w.avail_idx_mem(0).unwrap_or(0)).wrapping_sub(rx_avail_before) as usize;
                            let k = handed_back.max(1).min(with(|w| w.personality::<VsockDev>().delivered.len()));
                            if k > 1 {
                                probe("several_packets_in_one_poll");
                            }
                            for i in 0..k {
                                let Some(raw) = with(|w| w.personality::<VsockDev>().delivered.pop_front()) else { break };
                                let p = Pkt::decode(&raw).expect("harness packet");
                                let epoch = m.inflight_epochs.pop_front().unwrap_or(0);
                                m.inflight_peers.pop_front();
                                let pi = m.pfind((p.src_cid, p.src_port), p.dst_port);
                                let stale = epoch != m.peers[pi].epoch;
                                let last = i + 1 == k;
                                m.partial = !last;
                                let ri = if last { r.clone() } else { Ok(None) };
                                self.model_poll(&mut m, &p, &ri, stale);
                                m.partial = false;
                                if violated() {
                                    break;
                                }
                            }
                        }
                    }
                    // whatever happened: the receive buffer is back with the device
                    let (post, pend) = with(|w| (posted_rx(w), w.personality::<VsockDev>().delivered.len()));
                    if post + pend != 8 && !violated() {
                        violation("vsock-rx-buffer-lost", "poll", format!("{post} receive buffers posted + {pend} completed-unconsumed != 8 after poll returned {r:?}"));
                    }
                }
            }
            // isolation / observable state of every connection equals the model's
            if !violated() {
                for pr in peers_pool {
                    for lp in ports {
                        let est = mgr.is_connection_established(addr(pr), lp);
                        let av = mgr.recv_buffer_available_bytes(addr(pr), lp);
                        match m.find(pr, lp) {
                            None => {
                                if est.is_ok() || av.is_ok() {
                                    violation("vsock-state", "observe", format!("connection ({pr:?}, {lp}) exists in the driver (established {est:?}, {av:?} bytes) but not according to the protocol"));
                                }
                            }
                            Some(i) => {
                                if est != Ok(m.conns[i].established) || av != Ok(m.conns[i].buf.len()) {
                                    violation(
                                        "vsock-state",
                                        "observe",
                                        format!("connection ({pr:?}, {lp}): driver says established {est:?}, {av:?} bytes buffered; protocol says {} / {}", m.conns[i].established, m.conns[i].buf.len()),
                                    );
                                }
                            }
                        }
                    }
                }
                for lp in ports {
                    let used = mgr.is_local_port_used(lp);
                    let want = m.listening.contains(&lp) || m.conns.iter().any(|c| c.local == lp);
                    if used != want {
                        violation("vsock-state", "is_local_port_used", format!("port {lp}: {used} vs model {want}"));
                    }
                }
            }
            if total_read > 2 * self.cap as u64 && m.conns.len() >= 2 {
                nontrivial();
            }
            op_point();
            with(|w| w.check_no_lost_wakeup("vsock"));
        }
        drop(mgr);
    }
}

/// Does the protocol say that this packet, received now, is reported to the application (an event
/// or an error) rather than handled silently? (Same case analysis as `model_poll`, read-only.)
fn yields_result(m: &Model, p: &Pkt) -> bool {
    let announced = p.len as usize;
    if announced > p.payload.len() {
        return true;
    }
    match p.op {
        0 => return true,
        1..=7 => {
            if p.op != OP_RW && announced != 0 {
                return true;
            }
        }
        _ => return true,
    }
    let found = if p.dst_cid == GUEST { m.find((p.src_cid, p.src_port), p.dst_port) } else { None };
    match found {
        None => p.op == OP_REQUEST && p.dst_cid == GUEST && m.listening.contains(&p.dst_port),
        Some(_) => match p.op {
            OP_REQUEST => m.listening.contains(&p.dst_port),
            OP_CREDIT_REQUEST => false,
            _ => true,
        },
    }
}

impl Run {
    /// Steps the model for one received packet and compares with what `poll` returned.
    fn model_poll(&self, m: &mut Model, p: &Pkt, r: &Result<Option<virtio_drivers::device::socket::VsockEvent>, Error>, stale: bool) {
        // header-level errors
        let announced = p.len as usize;
        if announced > p.payload.len() {
            if *r != Err(se(SocketError::BufferTooShort)) {
                violation("vsock-result", "poll", format!("packet announcing {announced} payload bytes but carrying {}: {r:?}", p.payload.len()));
            }
            return check_tx(m, "poll", &[]);
        }
        let body = &p.payload[..announced];
        let op = p.op;
        let expect_err = match op {
            0 => Some(se(SocketError::InvalidOperation)),
            1..=7 => {
                if op != OP_RW && announced != 0 {
                    Some(se(SocketError::UnexpectedDataInPacket))
                } else {
                    None
                }
            }
            other => Some(se(SocketError::UnknownOperation(other))),
        };
        if let Some(e) = expect_err {
            if *r != Err(e) {
                violation("vsock-result", "poll", format!("malformed packet (op {op}, len {announced}): expected {e:?}, got {r:?}"));
            }
            return check_tx(m, "poll", &[]);
        }
        let src = (p.src_cid, p.src_port);
        let found = if p.dst_cid == GUEST { m.find(src, p.dst_port) } else { None };
        let idx = match found {
            Some(i) => i,
            None => {
                if op == OP_REQUEST && p.dst_cid == GUEST {
                    m.conns.push(MConn { peer: src, local: p.dst_port, established: false, peer_shutdown: false, buf: VecDeque::new(), cap: m.cap, read_by_app: 0, tx_cnt: 0, adv: (0, 0), pending_cr: false, tainted: false, rerequested: false });
                    m.conns.len() - 1
                } else {
                    // unknown or foreign connection: nothing happens
                    probe("packet_for_unknown_connection");
                    if *r != Ok(None) {
                        violation("vsock-unknown-connection", "poll", format!("packet op {op} for unknown connection ({src:?} -> {}:{}) produced {r:?}", p.dst_cid, p.dst_port));
                    }
                    return check_tx(m, "poll", &[]);
                }
            }
        };
        if stale {
            m.conns[idx].tainted = true;
        }
        m.conns[idx].adv = (p.buf_alloc, p.fwd_cnt);
        if op == OP_CREDIT_UPDATE {
            m.conns[idx].pending_cr = false;
        }
        let ev_ok = |want: VsockEventType| -> bool {
            match r {
                Ok(Some(e)) => {
                    e.event_type == want
                        && e.source == addr(src)
                        && e.destination == (VsockAddr { cid: p.dst_cid, port: p.dst_port })
                        && e.buffer_status.buffer_allocation == p.buf_alloc
                        && e.buffer_status.forward_count == p.fwd_cnt
                }
                _ => false,
            }
        };
        match op {
            OP_RW => {
                let free = m.conns[idx].cap as usize - m.conns[idx].buf.len();
                if body.len() > free {
                    if *r != Err(se(SocketError::OutputBufferTooShort(body.len()))) {
                        violation("vsock-result", "poll", format!("data packet of {} bytes with {free} bytes free: {r:?}", body.len()));
                    }
                    if !self.dishonest && !self.garbage && !m.conns[idx].tainted && m.conns[idx].rerequested {
                        violation(
                            "vsock-credit-overstated-after-rerequest",
                            "poll",
                            format!(
                                "the peer closed and re-requested the connection while {} unread bytes were still buffered; the driver accepted the request onto the old connection and advertised its full capacity, so a peer honouring that credit overflowed the buffer ({} bytes, {free} free)",
                                m.conns[idx].buf.len(),
                                body.len()
                            ),
                        );
                    } else if !self.dishonest && !self.garbage && !m.conns[idx].tainted {
                        violation(
                            "vsock-credit-overstated",
                            "poll",
                            format!("a peer that honoured the advertised credit overflowed the connection buffer ({} bytes, {free} free): the driver advertised more than its free receive space", body.len()),
                        );
                    }
                    return check_tx(m, "poll", &[]);
                }
                m.conns[idx].buf.extend(body.iter().copied());
                if !ev_ok(VsockEventType::Received { length: body.len() }) {
                    violation("vsock-event", "poll", format!("data packet of {} bytes: {r:?}", body.len()));
                }
                check_tx(m, "poll", &[]);
            }
            OP_REQUEST => {
                if found.is_some() && !m.conns[idx].buf.is_empty() {
                    m.conns[idx].rerequested = true;
                    probe("request_on_connection_with_unread_data");
                }
                if m.listening.contains(&p.dst_port) {
                    m.conns[idx].established = true;
                    let e = m.exp(&m.conns[idx], OP_RESPONSE, 0, 0);
                    if !ev_ok(VsockEventType::ConnectionRequest) {
                        violation("vsock-event", "poll", format!("connection request to listening port {}: {r:?}", p.dst_port));
                    }
                    check_tx(m, "poll", &[e]);
                } else {
                    let e = m.exp(&m.conns[idx], OP_RST, 0, 0);
                    m.conns.remove(idx);
                    if *r != Ok(None) {
                        violation("vsock-event", "poll", format!("connection request to port {} nobody listens on was reported: {r:?}", p.dst_port));
                    }
                    check_tx(m, "poll", &[e]);
                }
            }
            OP_RESPONSE => {
                m.conns[idx].established = true;
                if !ev_ok(VsockEventType::Connected) {
                    violation("vsock-event", "poll", format!("response: {r:?}"));
                }
                check_tx(m, "poll", &[]);
            }
            OP_RST | OP_SHUTDOWN => {
                let reason = if op == OP_RST { DisconnectReason::Reset } else { DisconnectReason::Shutdown };
                let mut want = vec![];
                if m.conns[idx].buf.is_empty() {
                    if op == OP_SHUTDOWN {
                        want.push(m.exp(&m.conns[idx], OP_RST, 0, 0));
                    }
                    m.conns.remove(idx);
                } else {
                    m.conns[idx].peer_shutdown = true;
                    probe("peer_shutdown_with_buffered_data");
                }
                if !ev_ok(VsockEventType::Disconnected { reason }) {
                    violation("vsock-event", "poll", format!("disconnect: {r:?}"));
                }
                check_tx(m, "poll", &want);
            }
            OP_CREDIT_REQUEST => {
                let e = m.exp(&m.conns[idx], OP_CREDIT_UPDATE, 0, 0);
                if *r != Ok(None) {
                    violation("vsock-event", "poll", format!("credit request: {r:?}"));
                }
                check_tx(m, "poll", &[e]);
            }
            _ => {
                if !ev_ok(VsockEventType::CreditUpdate) {
                    violation("vsock-event", "poll", format!("credit update: {r:?}"));
                }
                check_tx(m, "poll", &[]);
            }
        }
    }
}

fn run(dishonest: bool, garbage: bool) {
    let tk = [TKind::Model, TKind::ModelLegacy, TKind::MmioModern, TKind::MmioLegacy, TKind::Pci, TKind::ModelPciLike][choose(6) as usize];
    crate::scen::queue::draw_device_policy();
    let mut feats = F_VERSION_1 | F_INDIRECT * choose(2) | F_EVENT_IDX * choose(2) | F_ACCESS_PLATFORM * choose(2) | choose(4);
    if tk.legacy() {
        feats &= !F_VERSION_1;
    }
    let mut cfg = Kind::Socket.default_config();
    cfg[0..8].copy_from_slice(&GUEST.to_le_bytes());
    zoo::setup_device(Kind::Socket, feats, cfg);
    with(|w| w.dev = Some(Box::new(VsockDev::new(GUEST))));
    let cap = [1u32, 7, 64, 468, 1024, 4096, 65536][choose(7) as usize];
    oplog(|| format!("vsock over {tk:?} features {feats:#x} capacity {cap} dishonest {dishonest} garbage {garbage} policy {:?}", with(|w| (w.cfg.serve, w.cfg.suppress))));
    if let Err(e) = zoo::with_transport(tk, Run { cap, dishonest, garbage }) {
        violation("transport-construction-failed", "zoo", e);
    }
}

/// Peers honour the advertised credit and only send well-formed packets.
pub fn honest() {
    run(false, false)
}
/// Peers send invalid, unknown-connection and foreign packets too.
pub fn garbage() {
    run(false, true)
}
/// Peers exceed the advertised credit and shrink their windows.
pub fn dishonest() {
    run(true, true)
}

// ---------------------------------------------------------------------------------------------
// counter wrap-around: more than 4 GiB in each direction

const BIG_RX: usize = (1 << 20) + HDR;

struct WrapTx;

impl TransportFn<()> for WrapTx {
    fn call<T: Transport + 'static>(self, t: T) {
        let sock = match VirtIOSocket::<SimHal, T, SOCK_RX>::new(t) {
            Ok(s) => s,
            Err(e) => return violation("vsock-new-failed", "new", format!("{e:?}")),
        };
        let mut mgr: Mgr<T> = VsockConnectionManager::new_with_capacity(sock, 1024);
        let peer = (2u64, 77u32);
        let local = 5000u32;
        if mgr.connect(addr(peer), local).is_err() {
            return violation("vsock-result", "connect", "connect failed".into());
        }
        with(|w| w.personality::<VsockDev>().tx.clear());
        // the peer accepts with a window of 1 GiB and consumes everything immediately
        let window: u32 = 1 << 30;
        let mut peer_fwd: u32 = 0;
        let mut send_pkt = |op: u16, fwd: u32| {
            let p = Pkt { src_cid: peer.0, dst_cid: GUEST, src_port: peer.1, dst_port: local, len: 0, type_: 1, op, flags: 0, buf_alloc: window, fwd_cnt: fwd, payload: vec![], payload_len: 0 };
            with(|w| {
                w.personality::<VsockDev>().outbound.push_back(p.encode());
                w.drain_device();
            });
        };
        send_pkt(OP_RESPONSE, 0);
        if !matches!(mgr.poll(), Ok(Some(_))) {
            return violation("vsock-event", "poll", "response not reported".into());
        }
        let chunk: usize = 48 << 20;
        let mut buf = vec![0u8; chunk];
        let mut sent: u64 = 0;
        let target: u64 = (1u64 << 32) + (1 << 28) + choose(1 << 20);
        let mut tx_cnt: u32 = 0;
        let mut refused_in_a_row = 0;
        while sent < target && !violated() {
            let n = (chunk - choose(4096) as usize).min((target - sent) as usize);
            for (k, b) in buf[..n].iter_mut().enumerate() {
                *b = bulk_byte(sent + k as u64);
            }
            let r = mgr.send(addr(peer), local, &buf[..n]);
            let inflight = tx_cnt.wrapping_sub(peer_fwd);
            let free = window.saturating_sub(inflight);
            if n as u64 > free as u64 {
                if r != Err(se(SocketError::InsufficientBufferSpaceInPeer)) {
                    violation("vsock-credit-exceeded", "send", format!("send of {n} bytes with {free} bytes of credit after {sent} bytes in total: {r:?}"));
                }
                probe("credit_request_sent");
                refused_in_a_row += 1;
                if refused_in_a_row > 4 {
                    // (bounded liveness: the peer has granted its whole window each time)
                    violation("vsock-send-never-accepted", "send", format!("the peer acknowledged everything and granted its whole window {refused_in_a_row} times in a row, yet a send of {n} bytes is still refused after {sent} bytes in total"));
                    break;
                }
                // peer answers the credit request
                peer_fwd = tx_cnt;
                send_pkt(OP_CREDIT_UPDATE, peer_fwd);
                let _ = mgr.poll();
                with(|w| w.personality::<VsockDev>().tx.clear());
                continue;
            }
            if r != Ok(()) {
                violation("vsock-result", "send", format!("send of {n} bytes with {free} bytes of credit after {sent} bytes in total (tx counter {tx_cnt:#x}): {r:?}"));
                break;
            }
            // the n bytes reach the device as one data packet or as several, in order
            let pks: Vec<Pkt> = with(|w| w.personality::<VsockDev>().tx.drain(..).collect());
            let total: usize = pks.iter().map(|p| p.payload_len).sum();
            if pks.is_empty() || total != n || pks.iter().any(|p| p.op != OP_RW || p.len as usize != p.payload_len) {
                violation("vsock-packets", "send", format!("expected data packets carrying {n} bytes, device saw {:?}", pks.iter().map(|p| (p.op, p.len, p.payload_len)).collect::<Vec<_>>()));
                break;
            }
            sent += n as u64;
            refused_in_a_row = 0;
            let before = tx_cnt;
            tx_cnt = tx_cnt.wrapping_add(n as u32);
            if tx_cnt < before {
                probe("tx_cnt_wrapped");
                nontrivial();
            }
            // the peer consumes lazily: only tells the driver now and then
            if flip(1, 3) {
                peer_fwd = tx_cnt;
                send_pkt(OP_CREDIT_UPDATE, peer_fwd);
                let _ = mgr.poll();
                with(|w| w.personality::<VsockDev>().tx.clear());
            }
            op_point();
        }
        drop(mgr);
    }
}

pub fn wrap_tx() {
    let tk = [TKind::Model, TKind::ModelLegacy][choose(2) as usize];
    let mut feats = F_VERSION_1 | F_INDIRECT * choose(2) | F_EVENT_IDX * choose(2);
    if tk.legacy() {
        feats &= !F_VERSION_1;
    }
    let mut cfg = Kind::Socket.default_config();
    cfg[0..8].copy_from_slice(&GUEST.to_le_bytes());
    zoo::setup_device(Kind::Socket, feats, cfg);
    with(|w| {
        let mut d = VsockDev::new(GUEST);
        d.bulk = true;
        w.dev = Some(Box::new(d));
        w.cfg.serve = ServePolicy::NotifyOnly;
        w.cfg.suppress = Suppress::Never;
        w.cfg.step_eighths = 0;
        w.cfg.step_at_stores = false;
    });
    oplog(|| format!("vsock transmit counter wrap over {tk:?}"));
    if let Err(e) = zoo::with_transport(tk, WrapTx) {
        violation("transport-construction-failed", "zoo", e);
    }
}

struct WrapRx;

impl TransportFn<()> for WrapRx {
    fn call<T: Transport + 'static>(self, t: T) {
        let sock = match VirtIOSocket::<SimHal, T, BIG_RX>::new(t) {
            Ok(s) => s,
            Err(e) => return violation("vsock-new-failed", "new", format!("{e:?}")),
        };
        // per-connection buffer capacity: a power of two, or not (ring-buffer positions must not
        // depend on the capacity dividing 2^32)
        let cap: u32 = match choose(4) {
            0 => 2 << 20,
            1 => 3 << 20,
            2 => (2 << 20) + 4096 + choose(1 << 12) as u32,
            _ => 1_500_001,
        };
        if !cap.is_power_of_two() {
            probe("rx_capacity_not_power_of_two");
        }
        let mut mgr: VsockConnectionManager<SimHal, T, BIG_RX> = VsockConnectionManager::new_with_capacity(sock, cap);
        let peer = (2u64, 77u32);
        let local = 5000u32;
        mgr.listen(local);
        let push = |p: Pkt| {
            with(|w| {
                w.personality::<VsockDev>().outbound.push_back(p.encode());
                w.drain_device();
            });
        };
        push(Pkt { src_cid: peer.0, dst_cid: GUEST, src_port: peer.1, dst_port: local, len: 0, type_: 1, op: OP_REQUEST, flags: 0, buf_alloc: 1 << 20, fwd_cnt: 0, payload: vec![], payload_len: 0 });
        if !matches!(mgr.poll(), Ok(Some(_))) {
            return violation("vsock-event", "poll", "connection request not reported".into());
        }
        // driver's advertisement as seen by the peer
        let mut seen: (u32, u32) = match with(|w| w.personality::<VsockDev>().tx.pop_front()) {
            Some(p) if p.op == OP_RESPONSE => (p.buf_alloc, p.fwd_cnt),
            other => return violation("vsock-packets", "poll", format!("expected a response, got {:?}", other.map(|p| p.op))),
        };
        let target: u64 = (1u64 << 32) + (1 << 27) + choose(1 << 20);
        let mut peer_tx: u64 = 0;
        let mut read: u64 = 0;
        let mut out = vec![0u8; 1 << 20];
        let mut payload = vec![0u8; 1 << 20];
        let mut stalled = 0;
        while read < target && !violated() {
            let progress_mark = (peer_tx, read);
            // peer sends as much as the advertised credit allows, at most one buffer full
            let free = seen.0.saturating_sub((peer_tx as u32).wrapping_sub(seen.1));
            let n = (free as usize).min(1 << 20).min((target - peer_tx) as usize);
            if n > 0 {
                let n = n - (choose(64) as usize).min(n - 1);
                for (k, b) in payload[..n].iter_mut().enumerate() {
                    *b = bulk_byte(peer_tx + k as u64);
                }
                let p = Pkt { src_cid: peer.0, dst_cid: GUEST, src_port: peer.1, dst_port: local, len: n as u32, type_: 1, op: OP_RW, flags: 0, buf_alloc: 1 << 20, fwd_cnt: 0, payload: payload[..n].to_vec(), payload_len: n };
                push(p);
                peer_tx += n as u64;
                match mgr.poll() {
                    Ok(Some(e)) if e.event_type == (VsockEventType::Received { length: n }) => {}
                    other => {
                        violation("vsock-credit-overstated", "poll", format!("data packet of {n} bytes sent within the advertised credit {seen:?} after {peer_tx} bytes in total: {other:?}"));
                        break;
                    }
                }
            }
            // application reads
            let want = 1 + choose(1 << 20) as usize;
            match mgr.recv(addr(peer), local, &mut out[..want]) {
                Ok(k) => {
                    for j in (0..k).step_by((k / 64).max(1)) {
                        if out[j] != bulk_byte(read + j as u64) {
                            violation("vsock-stream-data", "recv", format!("byte at stream position {} is {:#x}, peer sent {:#x}", read + j as u64, out[j], bulk_byte(read + j as u64)));
                            break;
                        }
                    }
                    read += k as u64;
                }
                Err(e) => {
                    violation("vsock-result", "recv", format!("{e:?} after {read} bytes"));
                    break;
                }
            }
            // (a driver may announce freed space by itself; such updates must carry true values)
            for p in with(|w| w.personality::<VsockDev>().tx.drain(..).collect::<Vec<_>>()) {
                if p.op == OP_CREDIT_UPDATE && p.fwd_cnt == read as u32 && p.buf_alloc == cap && p.len == 0 {
                    probe("unsolicited_packet_accepted");
                    seen = (p.buf_alloc, p.fwd_cnt);
                } else {
                    violation("vsock-packets", "recv", format!("recv transmitted op {} (buf_alloc {} fwd_cnt {:#x} len {}); application has read {read} bytes, capacity {cap}", p.op, p.buf_alloc, p.fwd_cnt, p.len));
                }
            }
            // the driver tells the peer about the freed space
            match mgr.update_credit(addr(peer), local) {
                Ok(()) => match with(|w| w.personality::<VsockDev>().tx.pop_front()) {
                    Some(p) if p.op == OP_CREDIT_UPDATE => {
                        if p.fwd_cnt != read as u32 || p.buf_alloc != cap {
                            violation("vsock-packet-fields", "update_credit", format!("credit update carries buf_alloc {} fwd_cnt {:#x}; capacity {cap}, application has read {read} bytes ({:#x} mod 2^32)", p.buf_alloc, p.fwd_cnt, read as u32));
                        }
                        if (p.fwd_cnt as u64) < (seen.1 as u64) {
                            probe("fwd_cnt_wrapped");
                            nontrivial();
                        }
                        seen = (p.buf_alloc, p.fwd_cnt);
                    }
                    other => violation("vsock-packets", "update_credit", format!("{:?}", other.map(|p| p.op))),
                },
                Err(e) => violation("vsock-result", "update_credit", format!("{e:?}")),
            }
            // bounded liveness: with an honest peer and an application that keeps reading, every
            // round moves bytes
            stalled = if (peer_tx, read) == progress_mark { stalled + 1 } else { 0 };
            if stalled > 4 && !violated() {
                violation("vsock-stream-stalled", "recv", format!("no byte was sent or read in {stalled} consecutive rounds: peer sent {peer_tx}, application read {read}, last advertisement {seen:?}"));
            }
            op_point();
        }
        drop(mgr);
    }
}

pub fn wrap_rx() {
    let tk = [TKind::Model, TKind::ModelLegacy][choose(2) as usize];
    let mut feats = F_VERSION_1 | F_INDIRECT * choose(2) | F_EVENT_IDX * choose(2);
    if tk.legacy() {
        feats &= !F_VERSION_1;
    }
    let mut cfg = Kind::Socket.default_config();
    cfg[0..8].copy_from_slice(&GUEST.to_le_bytes());
    zoo::setup_device(Kind::Socket, feats, cfg);
    with(|w| {
        let mut d = VsockDev::new(GUEST);
        d.bulk = true;
        w.dev = Some(Box::new(d));
        w.cfg.serve = ServePolicy::NotifyOnly;
        w.cfg.suppress = Suppress::Never;
        w.cfg.step_eighths = 0;
        w.cfg.step_at_stores = false;
    });
    oplog(|| format!("vsock forward counter wrap over {tk:?}"));
    if let Err(e) = zoo::with_transport(tk, WrapRx) {
        violation("transport-construction-failed", "zoo", e);
    }
}
