pub mod queue;
