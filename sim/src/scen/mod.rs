pub mod queue;
pub mod c06;
pub mod c10;
