//! C10: the real `MmioTransport` (and `SomeTransport::Mmio`) over the register-level reference
//! device: random operation sequences with random arguments; per operation the ordered MMIO
//! trace is checked against what the specification prescribes; probing with random headers.

use crate::mmio::{MMIO_VIRT_BASE, MmioAcc, MmioDev, reg_name};
use crate::world::*;
use core::ptr::NonNull;
use virtio_drivers::transport::mmio::{MmioTransport, VirtIOHeader};
use virtio_drivers::transport::{DeviceStatus, SomeTransport, Transport};

pub fn header_ptr() -> NonNull<VirtIOHeader> {
    NonNull::new(MMIO_VIRT_BASE as *mut VirtIOHeader).unwrap()
}

/// Installs a virtio-mmio device in the world and returns the real transport over it.
pub fn make_mmio(version: u32, device_id: u32, config_len: usize) -> Result<MmioTransport<'static>, String> {
    with(|w| {
        w.bus.dev = Some(MmioDev::new(version, device_id, 0x100 + config_len));
        w.tr.device_type = device_id;
        w.tr.legacy = version == 1;
        if w.tr.config.len() != config_len {
            w.tr.config.resize(config_len, 0);
        }
    });
    // SAFETY: the window is never dereferenced; all accesses are intercepted by the MMIO seam.
    unsafe { MmioTransport::new(header_ptr(), 0x100 + config_len) }.map_err(|e| format!("{e:?}"))
}

thread_local! {
    /// The device's QueueSel register when the capture of the current operation started.
    static SEL_AT_START: std::cell::Cell<Option<u32>> = const { std::cell::Cell::new(None) };
}

fn cap_start() {
    with(|w| {
        w.bus.capture = Some(Vec::new());
        SEL_AT_START.with(|c| c.set(w.bus.dev.as_ref().map(|d| d.queue_sel)));
    });
}

/// Registers that belong to the queue named by QueueSel.
const PER_QUEUE_REGS: [u64; 11] = [0x34, 0x38, 0x3c, 0x40, 0x44, 0x80, 0x84, 0x90, 0x94, 0xa0, 0xa4];

/// The statement asks that the queue is *selected* before any per-queue register is used, not
/// that QueueSel is written every time: a transport that remembers the selection correctly is
/// fine. So QueueSel writes are judged by their effect - at every per-queue access the device's
/// QueueSel must name the queue the operation is about - and removed from the trace; exact
/// repetitions (a read repeating an identical earlier read of the operation, a write repeating
/// the last write to that register) are removed too, they change nothing.
/// Registers an operation may additionally *read* (reads have no side effect on a virtio-mmio
/// device): its own read/write registers - the status register for status writes and the reset on
/// drop (waiting for a reset to complete), the queue's ready/PFN/maximum-size registers while
/// programming the selected queue (checking whether it is live first).
fn own_readable(op: &str) -> &'static [u64] {
    match op {
        "set_status" | "drop" => &[0x70],
        "queue_set" => &[0x34, 0x40, 0x44],
        _ => &[],
    }
}

fn normal_form(op: &str, trace: &[MmioAcc], about: Option<u64>, judge: bool) -> Vec<MmioAcc> {
    let mut sel = SEL_AT_START.with(|c| c.get()).map(u64::from);
    let mut out: Vec<MmioAcc> = Vec::new();
    for a in trace {
        if judge && !a.write && own_readable(op).contains(&a.off) {
            // judged by the QueueSel rule below if it is a per-queue register, otherwise free
            if PER_QUEUE_REGS.contains(&a.off) && about.is_some() && sel != about {
                violation("mmio-trace", op, format!("{op}: {} read while QueueSel is {sel:?}; the operation is about queue {}", reg_name(a.off as u32), about.unwrap()));
                return trace.to_vec();
            }
            continue;
        }
        // stopping a queue that is still live before it is programmed again is fine as well
        if judge && op == "queue_set" && a.write && (a.off == 0x44 || a.off == 0x40) && a.value == 0 && !out.iter().any(|b| b.write) {
            continue;
        }
        if a.write && a.off == 0x30 {
            sel = Some(a.value);
            continue;
        }
        if judge && PER_QUEUE_REGS.contains(&a.off) && about.is_some() && sel != about {
            violation(
                "mmio-trace",
                op,
                format!("{op}: {} accessed while QueueSel is {sel:?}; the operation is about queue {} [{}]", reg_name(a.off as u32), about.unwrap(), fmt_trace(trace)),
            );
            return trace.to_vec();
        }
        let dup = if a.write { out.iter().rev().find(|b| b.write && b.off == a.off).is_some_and(|b| b == a) } else { out.iter().any(|b| b == a) };
        if !dup {
            out.push(a.clone());
        }
    }
    out
}

fn queue_of(want: &[MmioAcc]) -> Option<u64> {
    want.iter().find(|a| a.write && a.off == 0x30).map(|a| a.value)
}
fn cap_take() -> Vec<MmioAcc> {
    with(|w| w.bus.capture.take().unwrap_or_default())
}

fn fmt_trace(t: &[MmioAcc]) -> String {
    t.iter()
        .map(|a| format!("{}{} {:#x}({})={:#x}", if a.write { "w" } else { "r" }, a.width * 8, a.off, reg_name(a.off as u32 & !3), a.value))
        .collect::<Vec<_>>()
        .join(", ")
}

fn w32(off: u64, value: u64) -> MmioAcc {
    MmioAcc { window: 'M', off, width: 4, write: true, value }
}
fn r32(off: u64, value: u64) -> MmioAcc {
    MmioAcc { window: 'M', off, width: 4, write: false, value }
}

fn expect_exact(op: &str, got: &[MmioAcc], want: &[MmioAcc]) {
    let about = queue_of(want);
    let (g, w) = (normal_form(op, got, about, true), normal_form(op, want, about, false));
    if g != w && !violated() {
        violation("mmio-trace", op, format!("{op}: register accesses [{}], specification prescribes [{}]", fmt_trace(got), fmt_trace(want)));
    }
}

/// `got` must be `first`, then the members of `middle` in any order (each exactly once), then `last`.
fn expect_framed(op: &str, got: &[MmioAcc], first: &[MmioAcc], middle: &[MmioAcc], last: &[MmioAcc]) {
    let about = queue_of(first);
    let got = &normal_form(op, got, about, true)[..];
    let first = &normal_form(op, first, about, false)[..];
    if violated() {
        return;
    }
    let ok = got.len() == first.len() + middle.len() + last.len() && got[..first.len()] == *first && got[got.len() - last.len()..] == *last && {
        let mut m: Vec<&MmioAcc> = got[first.len()..got.len() - last.len()].iter().collect();
        let mut w: Vec<&MmioAcc> = middle.iter().collect();
        let k = |a: &&MmioAcc| (a.off, a.write, a.value, a.width);
        m.sort_by_key(k);
        w.sort_by_key(k);
        m == w
    };
    if !ok {
        violation(
            "mmio-trace",
            op,
            format!("{op}: register accesses [{}]; prescribed: first [{}], then in any order [{}], last [{}]", fmt_trace(got), fmt_trace(first), fmt_trace(middle), fmt_trace(last)),
        );
    }
}

fn rand_addr() -> u64 {
    // page aligned, often with a non-zero high word
    let hi = if flip(2, 3) { 1 + choose(0xfff) } else { 0 };
    let lo = choose(0x10_0000) << 12;
    (hi << 32) | (lo & 0xffff_f000)
}

pub fn ops<T: Transport>(mut t: T, version: u32, device_id: u32, n_ops: u64) {
    let legacy = version == 1;
    let nq = 4u16;
    with(|w| {
        w.ensure_queues(nq as usize, 0);
        for (i, q) in w.tr.queues.iter_mut().enumerate() {
            q.max_size = [0u32, 4, 256, 32768][i % 4];
        }
        w.cfg.device_active = false;
        w.cfg.validate = false;
    });
    let mut page_size_set = false;
    for _ in 0..n_ops {
        if violated() {
            break;
        }
        let k = choose(16);
        let q = choose(nq as u64) as u16;
        match k {
            0 => {
                let f = if flip(1, 4) { u64::MAX } else { choose(u64::MAX) };
                with(|w| w.tr.device_features = f);
                cap_start();
                let got = t.read_device_features();
                let tr = cap_take();
                oplog(|| format!("read_device_features -> {got:#x}"));
                let lo = [w32(0x14, 0), r32(0x10, f & 0xffff_ffff)];
                let hi = [w32(0x14, 1), r32(0x10, f >> 32)];
                let a: Vec<_> = lo.iter().chain(hi.iter()).cloned().collect();
                let b: Vec<_> = hi.iter().chain(lo.iter()).cloned().collect();
                if tr != a && tr != b {
                    expect_exact("read_device_features", &tr, &a);
                }
                if got != f {
                    violation("mmio-value", "read_device_features", format!("device offers {f:#x}, transport returned {got:#x}"));
                }
            }
            1 => {
                let f = choose(u64::MAX);
                cap_start();
                t.write_driver_features(f);
                let tr = cap_take();
                oplog(|| format!("write_driver_features({f:#x})"));
                let lo = [w32(0x24, 0), w32(0x20, f & 0xffff_ffff)];
                let hi = [w32(0x24, 1), w32(0x20, f >> 32)];
                let a: Vec<_> = lo.iter().chain(hi.iter()).cloned().collect();
                let b: Vec<_> = hi.iter().chain(lo.iter()).cloned().collect();
                if tr != a && tr != b {
                    expect_exact("write_driver_features", &tr, &a);
                }
                let got = with(|w| w.tr.driver_features);
                if got != f {
                    violation("mmio-value", "write_driver_features", format!("driver passed {f:#x}, device received {got:#x}"));
                }
            }
            2 => {
                cap_start();
                let got = t.max_queue_size(q);
                let tr = cap_take();
                let want = with(|w| w.tr.queues[q as usize].max_size);
                oplog(|| format!("max_queue_size({q}) -> {got}"));
                expect_exact("max_queue_size", &tr, &[w32(0x30, q as u64), r32(0x34, want as u64)]);
                if got != want {
                    violation("mmio-value", "max_queue_size", format!("QueueNumMax {want}, returned {got}"));
                }
            }
            3 => {
                cap_start();
                t.notify(q);
                let tr = cap_take();
                oplog(|| format!("notify({q})"));
                expect_exact("notify", &tr, &[w32(0x50, q as u64)]);
            }
            4 => {
                let cur = with(|w| w.tr.status);
                cap_start();
                let got = t.get_status();
                let tr = cap_take();
                expect_exact("get_status", &tr, &[r32(0x70, cur as u64)]);
                if got.bits() != cur {
                    violation("mmio-value", "get_status", format!("status {cur:#x}, returned {:#x}", got.bits()));
                }
            }
            5 => {
                // never DRIVER_OK here: queues are registered below without real memory
                let s = [1u32, 3, 11, 0x80, 0x43][choose(5) as usize];
                cap_start();
                t.set_status(DeviceStatus::from_bits_retain(s));
                let tr = cap_take();
                oplog(|| format!("set_status({s:#x})"));
                expect_exact("set_status", &tr, &[w32(0x70, s as u64)]);
                let got = with(|w| w.tr.status);
                if got != s {
                    violation("mmio-value", "set_status", format!("wrote {s:#x}, device has {got:#x}"));
                }
            }
            6 => {
                let p = [4096u32, 65536, 1 << 14][choose(3) as usize];
                cap_start();
                t.set_guest_page_size(p);
                let tr = cap_take();
                oplog(|| format!("set_guest_page_size({p})"));
                if legacy {
                    expect_exact("set_guest_page_size", &tr, &[w32(0x28, p as u64)]);
                    page_size_set = p == 4096;
                } else {
                    expect_exact("set_guest_page_size", &tr, &[]);
                }
            }
            7 | 8 => {
                // queue_set on a queue that is not in use - or, now and then, on one the device
                // still has enabled (handed over live, or set twice): what it registers afterwards
                // is judged, not the way there (a transport may or may not stop the queue first)
                let live = with(|w| w.tr.queues[q as usize].ready);
                if live && !flip(1, 4) {
                    continue;
                }
                if live {
                    probe("queue_set_on_live_queue");
                }
                let size = 1u32 << choose(16);
                if legacy {
                    if !page_size_set {
                        cap_start();
                        t.set_guest_page_size(4096);
                        cap_take();
                        page_size_set = true;
                    }
                    let pfn = 1 + choose(0xffff_fffe);
                    let desc = pfn * 4096;
                    let n = size as u64;
                    let driver = desc + 16 * n;
                    let device = (driver + 6 + 2 * n + 4095) & !4095;
                    cap_start();
                    t.queue_set(q, size, desc, driver, device);
                    let tr = cap_take();
                    oplog(|| format!("queue_set(q{q}, {size}, {desc:#x}, {driver:#x}, {device:#x}) legacy"));
                    if !live {
                        expect_framed("queue_set", &tr, &[w32(0x30, q as u64)], &[w32(0x38, size as u64), w32(0x3c, 4096)], &[w32(0x40, pfn)]);
                    }
                    let r = with(|w| w.tr.queues[q as usize].clone());
                    if !(r.ready && r.size == size && r.desc == desc && r.driver == driver && r.device == device) {
                        violation("mmio-value", "queue_set", format!("device registered {r:x?}, driver passed size {size} {desc:#x} {driver:#x} {device:#x}"));
                    }
                } else {
                    let (desc, driver, device) = (rand_addr(), rand_addr() | 0x800, rand_addr() | 0x400);
                    cap_start();
                    t.queue_set(q, size, desc, driver, device);
                    let tr = cap_take();
                    oplog(|| format!("queue_set(q{q}, {size}, {desc:#x}, {driver:#x}, {device:#x})"));
                    let mid = [
                        w32(0x38, size as u64),
                        w32(0x80, desc & 0xffff_ffff),
                        w32(0x84, desc >> 32),
                        w32(0x90, driver & 0xffff_ffff),
                        w32(0x94, driver >> 32),
                        w32(0xa0, device & 0xffff_ffff),
                        w32(0xa4, device >> 32),
                    ];
                    if !live {
                        expect_framed("queue_set", &tr, &[w32(0x30, q as u64)], &mid, &[w32(0x44, 1)]);
                    }
                    let r = with(|w| w.tr.queues[q as usize].clone());
                    if !(r.ready && r.size == size && r.desc == desc && r.driver == driver && r.device == device) {
                        violation("mmio-value", "queue_set", format!("device registered {r:x?}, driver passed size {size} {desc:#x} {driver:#x} {device:#x}"));
                    }
                }
                nontrivial();
            }
            9 => {
                let was = with(|w| w.tr.queues[q as usize].ready);
                let delay = choose(4) as u32;
                with(|w| w.bus.dev.as_mut().unwrap().ready_clear_delay = delay);
                cap_start();
                t.queue_unset(q);
                let tr = cap_take();
                oplog(|| format!("queue_unset({q}) (was ready: {was}, device clears QueueReady up to {delay} reads late)"));
                if legacy {
                    // PFN <- 0 releases the queue; QueueNum/QueueAlign may be cleared too
                    let ok = tr.first() == Some(&w32(0x30, q as u64))
                        && tr.iter().skip(1).all(|a| a.write && a.value == 0 && [0x38u64, 0x3c, 0x40].contains(&a.off))
                        && tr.iter().filter(|a| a.off == 0x40).count() == 1;
                    if !ok {
                        violation("mmio-trace", "queue_unset", format!("legacy queue_unset: [{}]", fmt_trace(&tr)));
                    }
                } else {
                    // QueueSel, QueueReady<-0, poll QueueReady until it reads 0, only then parameters
                    let mut i = 0;
                    let mut ok = tr.get(i) == Some(&w32(0x30, q as u64));
                    i += 1;
                    ok &= tr.get(i) == Some(&w32(0x44, 0));
                    i += 1;
                    let mut last_read = None;
                    while let Some(a) = tr.get(i) {
                        if a.off == 0x44 && !a.write {
                            last_read = Some(a.value);
                            i += 1;
                            if a.value == 0 {
                                break;
                            }
                        } else {
                            break;
                        }
                    }
                    ok &= last_read == Some(0);
                    ok &= tr[i.min(tr.len())..].iter().all(|a| a.write && a.value == 0 && [0x38u64, 0x80, 0x84, 0x90, 0x94, 0xa0, 0xa4].contains(&a.off));
                    if !ok {
                        violation(
                            "mmio-trace",
                            "queue_unset",
                            format!("modern queue_unset must select the queue, write QueueReady 0 and wait until it reads back 0 before touching the queue parameters: [{}]", fmt_trace(&tr)),
                        );
                    }
                    if was && delay > 0 {
                        probe("queue_ready_polled");
                    }
                }
                if with(|w| w.tr.queues[q as usize].ready) {
                    violation("mmio-value", "queue_unset", "queue still enabled in the device after queue_unset".into());
                }
            }
            10 => {
                let want = with(|w| w.tr.queues[q as usize].ready);
                cap_start();
                let got = t.queue_used(q);
                let tr = cap_take();
                let reg = if legacy { 0x40 } else { 0x44 };
                let ok = tr.len() == 2 && tr[0] == w32(0x30, q as u64) && tr[1].off == reg && !tr[1].write && tr[1].width == 4;
                if !ok {
                    violation("mmio-trace", "queue_used", format!("queue_used: [{}]", fmt_trace(&tr)));
                }
                if got != want {
                    violation("mmio-value", "queue_used", format!("queue {q} in use: {want}, returned {got}"));
                }
            }
            11 => {
                // mostly the two defined causes; sometimes bits the driver does not know (a newer
                // device): whatever was read is what has to be acknowledged
                let isr = match choose(6) {
                    0 => 4 + choose(4) as u32,
                    1 => (1u32 << (2 + choose(30))) | choose(4) as u32,
                    _ => choose(4) as u32,
                };
                with(|w| w.tr.isr = isr);
                cap_start();
                let got = t.ack_interrupt();
                let tr = cap_take();
                oplog(|| format!("ack_interrupt with InterruptStatus={isr:#x} -> {:#x}", got.bits()));
                if isr == 0 {
                    // nothing to acknowledge: not writing InterruptACK and writing 0 are the same
                    if tr.len() == 2 {
                        expect_exact("ack_interrupt", &tr, &[r32(0x60, 0), w32(0x64, 0)]);
                    } else {
                        expect_exact("ack_interrupt", &tr, &[r32(0x60, 0)]);
                    }
                } else {
                    expect_exact("ack_interrupt", &tr, &[r32(0x60, isr as u64), w32(0x64, isr as u64)]);
                }
                if got.bits() != isr & 3 {
                    violation("mmio-value", "ack_interrupt", format!("InterruptStatus {isr:#x}, returned {:#x}", got.bits()));
                }
                if with(|w| w.tr.isr) != 0 {
                    violation("mmio-value", "ack_interrupt", "interrupt status not cleared by the acknowledgement".into());
                }
            }
            12 => {
                let g = choose(1 << 20) as u32;
                with(|w| w.tr.config_gen = g);
                cap_start();
                let got = t.read_config_generation();
                let tr = cap_take();
                oplog(|| format!("read_config_generation -> {got}"));
                if legacy {
                    // no generation register in the legacy interface
                    expect_exact("read_config_generation", &tr, &[]);
                } else {
                    expect_exact("read_config_generation", &tr, &[r32(0xfc, g as u64)]);
                    if got != g {
                        violation("mmio-value", "read_config_generation", format!("generation {g}, returned {got}"));
                    }
                }
            }
            13 => {
                let clen = with(|w| w.tr.config.len());
                if clen >= 8 {
                    let off = (choose(clen as u64 / 4 - 1) * 4) as usize;
                    let want = with(|w| u32::from_le_bytes(w.tr.config[off..off + 4].try_into().unwrap()));
                    cap_start();
                    let got = t.read_config_space::<u32>(off);
                    let tr = cap_take();
                    expect_exact("read_config_space", &tr, &[r32(0x100 + off as u64, want as u64)]);
                    if got != Ok(want) {
                        violation("mmio-value", "read_config_space", format!("config[{off}]={want:#x}, returned {got:?}"));
                    }
                    let v = choose(u32::MAX as u64) as u32;
                    cap_start();
                    let r = t.write_config_space::<u32>(off, v);
                    let tr = cap_take();
                    expect_exact("write_config_space", &tr, &[w32(0x100 + off as u64, v as u64)]);
                    let now = with(|w| u32::from_le_bytes(w.tr.config[off..off + 4].try_into().unwrap()));
                    if r.is_err() || now != v {
                        violation("mmio-value", "write_config_space", format!("wrote {v:#x} at {off}: result {r:?}, device has {now:#x}"));
                    }
                }
            }
            14 => {
                cap_start();
                let l = t.requires_legacy_layout();
                let d = t.device_type();
                let tr = cap_take();
                expect_exact("requires_legacy_layout/device_type", &tr, &[]);
                if l != legacy || d as u32 != device_id {
                    violation("mmio-value", "device_type", format!("legacy {l} (device version {version}), type {d:?} (device id {device_id})"));
                }
            }
            _ => {
                op_point();
            }
        }
    }
    cap_start();
    drop(t);
    let tr = cap_take();
    expect_exact("drop", &tr, &[w32(0x70, 0)]);
    if with(|w| w.tr.status) != 0 {
        violation("mmio-value", "drop", "device not reset when the transport was dropped".into());
    }
}

const IDS: [u32; 12] = [1, 2, 3, 4, 9, 16, 17, 18, 19, 25, 13, 24];

pub fn ops_run() {
    let version = 1 + choose(2) as u32;
    let device_id = IDS[choose(IDS.len() as u64) as usize];
    let wrap = flip(1, 3);
    let clen = [0usize, 8, 64, 256][choose(4) as usize];
    let n_ops = 5 + choose(60);
    oplog(|| format!("virtio-mmio version {version} device id {device_id} config {clen} bytes via {}", if wrap { "SomeTransport::Mmio" } else { "MmioTransport" }));
    with(|w| w.cfg.device_active = false);
    cap_start();
    let t = make_mmio(version, device_id, clen);
    let tr = cap_take();
    let Ok(t) = t else {
        violation("mmio-probe", "new", format!("well-formed device rejected: {:?}", t.err()));
        return;
    };
    check_probe_trace(&tr);
    with(|w| {
        for (i, b) in w.tr.config.iter_mut().enumerate() {
            *b = (i as u8).wrapping_mul(29).wrapping_add(3);
        }
    });
    if wrap {
        ops(SomeTransport::from(t), version, device_id, n_ops);
    } else {
        ops(t, version, device_id, n_ops);
    }
}

fn check_probe_trace(tr: &[MmioAcc]) {
    for a in tr {
        if a.write || a.width != 4 || ![0u64, 4, 8, 0xc].contains(&a.off) {
            violation("mmio-probe-trace", "new", format!("probing performed [{}]; it may only read the identification registers", fmt_trace(tr)));
            return;
        }
    }
}

/// Probing with arbitrary header contents and region sizes.
pub fn probe_run() {
    let magic = match choose(4) {
        0 | 1 => 0x7472_6976u32,
        2 => 0x7472_6976 ^ (1 << choose(32)),
        _ => choose(u32::MAX as u64) as u32,
    };
    let version = match choose(6) {
        0 => 1,
        1 => 2,
        2 => 0,
        3 => 3,
        4 => choose(u32::MAX as u64) as u32,
        _ => 1 + choose(2) as u32,
    };
    let device_id = match choose(5) {
        0 => 0,
        1 => [14u32, 15, 37, 43, 0x100, 0xffff_ffff][choose(6) as usize],
        2 => choose(48) as u32,
        _ => IDS[choose(IDS.len() as u64) as usize],
    };
    let region = match choose(4) {
        0 => choose(0x100) as usize,
        1 => [0xffusize, 0x100, 0x101, 0xfc][choose(4) as usize],
        _ => 0x100 + choose(0x200) as usize,
    };
    oplog(|| format!("probe magic {magic:#x} version {version} device id {device_id} region {region:#x}"));
    with(|w| {
        let mut d = MmioDev::new(version, device_id, region);
        d.magic = magic;
        w.bus.dev = Some(d);
        w.cfg.device_active = false;
        w.bus.capture = Some(Vec::new());
    });
    // SAFETY: never dereferenced (MMIO seam).
    let r = unsafe { MmioTransport::new(header_ptr(), region) };
    let tr = cap_take();
    let known = (1..=13).contains(&device_id) || (16..=25).contains(&device_id);
    let must_reject_id = device_id == 0 || [14, 15, 37].contains(&device_id) || device_id >= 43;
    let header_ok = magic == 0x7472_6976 && (version == 1 || version == 2);
    let must_accept = header_ok && known && region >= 0x100;
    let must_reject = !header_ok || must_reject_id || region < 0x100;
    if must_accept {
        nontrivial();
    }
    match &r {
        Ok(t) => {
            if must_reject {
                violation("mmio-probe-accepted", "new", format!("probe accepted magic {magic:#x} version {version} device id {device_id} region {region:#x}"));
            }
            if t.device_type() as u32 != device_id && !(device_id == 5 && t.device_type() as u32 == 13) {
                violation("mmio-probe-type", "new", format!("device id {device_id} reported as {:?}", t.device_type()));
            }
        }
        Err(e) => {
            if must_accept {
                violation("mmio-probe-rejected", "new", format!("probe rejected a correct device (version {version}, id {device_id}, region {region:#x}): {e:?}"));
            }
        }
    }
    check_probe_trace(&tr);
    if region < 0x100 && !tr.is_empty() {
        violation("mmio-probe-trace", "new", format!("region of {region:#x} bytes is smaller than the register block, yet probing accessed [{}]", fmt_trace(&tr)));
    }
    // a transport that was constructed resets the device on drop: that write is not part of probing
    drop(r);
}
