//! C20: command/response drivers (GPU, sound, entropy, clock, 9P) against reference devices that
//! decode every chain against structures written from the specification.

use crate::devices::gpu::*;
use crate::devices::simple::*;
use crate::devices::sound::*;
use crate::world::*;
use crate::zoo::{self, Gpu, Kind, P9, Rng, Rtc, Sound, TKind, TransportFn};
use virtio_drivers::Error;
use virtio_drivers::device::rtc::{ClockType, SmearingVariant};
use virtio_drivers::device::sound::{PcmFeatures, PcmFormat, PcmRate};
use virtio_drivers::transport::Transport;

fn pick_tk() -> TKind {
    [TKind::Model, TKind::ModelLegacy, TKind::MmioModern, TKind::MmioLegacy, TKind::Pci, TKind::ModelPciLike][choose(6) as usize]
}

fn common_feats(tk: TKind) -> u64 {
    let mut f = F_VERSION_1 | F_INDIRECT * choose(2) | F_EVENT_IDX * choose(2) | F_ACCESS_PLATFORM * choose(2);
    if tk.legacy() {
        f &= !F_VERSION_1;
    }
    f
}

// ---------------------------------------------------------------------------------------------
// entropy

struct RngRun;

impl TransportFn<()> for RngRun {
    fn call<T: Transport + 'static>(self, t: T) {
        let mut rng = match Rng::<T>::new(t) {
            Ok(r) => r,
            Err(e) => return violation("rng-new-failed", "new", format!("{e:?}")),
        };
        for _ in 0..(3 + choose(30)) {
            if violated() {
                break;
            }
            let n = 1 + choose(if flip(1, 2) { 16 } else { 600 }) as usize;
            let mut dst = vec![0xA5u8; n];
            let r = rng.request_entropy(&mut dst);
            let served = with(|w| w.personality::<RngDev>().served.pop_front());
            oplog(|| format!("request_entropy({n}) -> {r:?}"));
            match (r, served) {
                (Ok(k), Some((_, bytes))) => {
                    if k != bytes.len() {
                        violation("rng-length", "request_entropy", format!("device provided {} bytes, driver returned {k}", bytes.len()));
                    } else if dst[..k] != bytes[..] {
                        violation("rng-data", "request_entropy", "returned bytes differ from what the device provided".into());
                    } else if dst[k..].iter().any(|b| *b != 0xA5) {
                        violation("rng-data", "request_entropy", "bytes beyond the provided length were modified".into());
                    }
                    nontrivial();
                }
                (r, s) => violation("rng-result", "request_entropy", format!("{r:?} / device served {:?}", s.map(|x| x.1.len()))),
            }
            if flip(1, 4) {
                rng.enable_interrupts();
            } else if flip(1, 4) {
                rng.disable_interrupts();
            }
            op_point();
            with(|w| w.check_no_lost_wakeup("rng"));
        }
        drop(rng);
    }
}

pub fn rng_run() {
    let tk = pick_tk();
    crate::scen::queue::draw_device_policy();
    zoo::setup_device(Kind::Rng, common_feats(tk), vec![]);
    with(|w| w.dev = Some(Box::new(RngDev::new())));
    oplog(|| format!("VirtIORng over {tk:?}"));
    if let Err(e) = zoo::with_transport(tk, RngRun) {
        violation("transport-construction-failed", "zoo", e);
    }
}

// ---------------------------------------------------------------------------------------------
// clock

struct RtcRun {
    clocks: Vec<RtcClock>,
}

fn rtc_err(status: u8) -> Error {
    match status {
        2 => Error::Unsupported,
        3 | 4 => Error::InvalidParam,
        _ => Error::IoError,
    }
}

impl TransportFn<()> for RtcRun {
    fn call<T: Transport + 'static>(self, t: T) {
        let mut rtc = match Rtc::<T>::new(t) {
            Ok(r) => r,
            Err(e) => return violation("rtc-new-failed", "new", format!("{e:?}")),
        };
        for _ in 0..(3 + choose(30)) {
            if violated() {
                break;
            }
            let id = if flip(1, 5) { choose(70000) as u16 } else { choose(self.clocks.len() as u64 + 1) as u16 };
            match choose(3) {
                0 => {
                    let r = rtc.num_clocks();
                    let seen = with(|w| w.personality::<RtcDev>().seen.pop_front());
                    oplog(|| format!("num_clocks -> {r:?}"));
                    let Some(s) = seen else { return violation("rtc-no-request", "num_clocks", "no request reached the device".into()) };
                    if s.msg_type != 0x1000 {
                        violation("rtc-request-header", "num_clocks", format!("message type {:#x}", s.msg_type));
                    }
                    let want = if s.status == 0 { Ok(self.clocks.len() as u16) } else { Err(rtc_err(s.status)) };
                    if r != want {
                        violation("rtc-result", "num_clocks", format!("device status {} -> expected {want:?}, got {r:?}", s.status));
                    }
                }
                1 => {
                    let r = rtc.clock_cap(id);
                    let seen = with(|w| w.personality::<RtcDev>().seen.pop_front());
                    oplog(|| format!("clock_cap({id}) -> {r:?}"));
                    let Some(s) = seen else { return violation("rtc-no-request", "clock_cap", "no request reached the device".into()) };
                    if s.msg_type != 0x1001 || s.clock_id != id {
                        violation("rtc-request-header", "clock_cap", format!("message type {:#x} clock {} for clock_cap({id})", s.msg_type, s.clock_id));
                    }
                    if s.status != 0 {
                        if r.as_ref().err() != Some(&rtc_err(s.status)) {
                            violation("rtc-result", "clock_cap", format!("device status {} -> expected {:?}, got {r:?}", s.status, rtc_err(s.status)));
                        }
                    } else {
                        let c = &self.clocks[id as usize];
                        let kind = match c.type_ {
                            0 => Some(ClockType::Utc),
                            1 => Some(ClockType::Tai),
                            2 => Some(ClockType::Monotonic),
                            3 => Some(ClockType::UtcSmeared),
                            4 => Some(ClockType::UtcMaybeSmeared),
                            _ => None,
                        };
                        let smear = if c.type_ == 3 {
                            match c.smear {
                                0 => Some(None),
                                1 => Some(Some(SmearingVariant::NoonLinear)),
                                2 => Some(Some(SmearingVariant::UtcSls)),
                                _ => None,
                            }
                        } else {
                            Some(None)
                        };
                        match (kind, smear, &r) {
                            (Some(k), Some(sm), Ok(cap)) => {
                                if cap.kind != k || cap.leap_second_smearing != sm || cap.alarm_capability != (c.flags & 1 != 0) {
                                    violation("rtc-result", "clock_cap", format!("device reported type {} smearing {} flags {:#x}; driver returned {cap:?}", c.type_, c.smear, c.flags));
                                }
                                nontrivial();
                            }
                            (None, _, Err(Error::Unsupported)) | (_, None, Err(Error::Unsupported)) => {}
                            _ => violation("rtc-result", "clock_cap", format!("device reported type {} smearing {}; driver returned {r:?}", c.type_, c.smear)),
                        }
                    }
                }
                _ => {
                    let r = rtc.read(id);
                    let seen = with(|w| w.personality::<RtcDev>().seen.pop_front());
                    oplog(|| format!("read({id}) -> {r:?}"));
                    let Some(s) = seen else { return violation("rtc-no-request", "read", "no request reached the device".into()) };
                    if s.msg_type != 0x0001 || s.clock_id != id {
                        violation("rtc-request-header", "read", format!("message type {:#x} clock {} for read({id})", s.msg_type, s.clock_id));
                    }
                    let want = if s.status == 0 { Ok(self.clocks[id as usize].reading) } else { Err(rtc_err(s.status)) };
                    if r != want {
                        violation("rtc-result", "read", format!("device status {} -> expected {want:?}, got {r:?}", s.status));
                    }
                }
            }
            op_point();
        }
        drop(rtc);
    }
}

fn rtc(faulty: bool) {
    let tk = pick_tk();
    crate::scen::queue::draw_device_policy();
    zoo::setup_device(Kind::Rtc, common_feats(tk) | choose(2), vec![]);
    let clocks: Vec<RtcClock> = (0..choose(5)).map(|_| RtcClock { type_: choose(7) as u8, smear: choose(4) as u8, flags: choose(4) as u8, reading: choose(u64::MAX) }).collect();
    with(|w| {
        let mut d = RtcDev::new();
        d.clocks = clocks.clone();
        d.faulty = faulty;
        w.dev = Some(Box::new(d));
    });
    oplog(|| format!("VirtIORtc over {tk:?}, clocks {clocks:?}, faulty {faulty}"));
    if let Err(e) = zoo::with_transport(tk, RtcRun { clocks }) {
        violation("transport-construction-failed", "zoo", e);
    }
}
pub fn rtc_run() {
    rtc(false)
}
pub fn rtc_faulty() {
    rtc(true)
}

// ---------------------------------------------------------------------------------------------
// 9P

struct P9Run {
    tag: String,
}

impl TransportFn<()> for P9Run {
    fn call<T: Transport + 'static>(self, t: T) {
        let mut p9 = match P9::<T>::new(t) {
            Ok(r) => r,
            Err(e) => return violation("9p-new-failed", "new", format!("{e:?}")),
        };
        if p9.mount_tag() != self.tag {
            violation("9p-mount-tag", "mount_tag", format!("device tag {:?}, driver reports {:?}", self.tag, p9.mount_tag()));
        }
        for k in 0..(3 + choose(20)) {
            if violated() {
                break;
            }
            let rl = match choose(14) {
                // large messages (a Twrite under a large msize): page boundaries and many pages
                0 => [4095usize, 4096, 4097, 61440, 61441, 65536, 131072][choose(7) as usize],
                1..=6 => choose(12) as usize,
                _ => choose(300) as usize,
            };
            let sl = match choose(14) {
                0 => [4096usize, 4097, 65536][choose(3) as usize],
                1..=4 => choose(9) as usize,
                _ => choose(400) as usize,
            };
            let req: Vec<u8> = (0..rl).map(|i| (i as u8).wrapping_mul(9).wrapping_add(k as u8)).collect();
            let mut resp = vec![0u8; sl];
            let r = p9.request(&req, &mut resp);
            oplog(|| format!("request({rl} bytes, response buffer {sl}) -> {r:?}"));
            if rl == 0 || sl < 7 {
                if r != Err(Error::InvalidParam) {
                    violation("9p-param-check", "request", format!("request {rl} / response {sl} bytes: {r:?}"));
                }
                if with(|w| !w.personality::<P9Dev>().reqs.is_empty()) {
                    violation("9p-param-check", "request", "invalid request reached the device".into());
                }
                continue;
            }
            let (seen, sent) = with(|w| {
                let d = w.personality::<P9Dev>();
                (d.reqs.pop_front(), d.resps.pop_front())
            });
            match (seen, sent) {
                (Some(s), Some((dresp, lied))) => {
                    if s != req {
                        violation("9p-request-data", "request", "device received different request bytes".into());
                    }
                    if lied {
                        if r != Err(Error::IoError) {
                            violation("9p-size-check", "request", format!("response size field does not match the used length, driver returned {r:?}"));
                        }
                    } else {
                        match r {
                            Ok(n) => {
                                if n as usize != dresp.len() || resp[..dresp.len()] != dresp[..] {
                                    violation("9p-response-data", "request", format!("device wrote {} bytes, driver returned {n}", dresp.len()));
                                }
                                nontrivial();
                            }
                            Err(e) => violation("9p-result", "request", format!("{e:?}")),
                        }
                    }
                }
                _ => violation("9p-no-request", "request", "no request reached the device".into()),
            }
            op_point();
        }
        drop(p9);
    }
}

fn p9(faulty: bool) {
    let tk = pick_tk();
    crate::scen::queue::draw_device_policy();
    let n = 1 + choose(32) as usize;
    let tag: String = (0..n).map(|i| (b'a' + ((i as u64 * 7 + choose(26)) % 26) as u8) as char).collect();
    let mut cfg = vec![0u8; 2 + n];
    cfg[0..2].copy_from_slice(&(n as u16).to_le_bytes());
    cfg[2..].copy_from_slice(tag.as_bytes());
    // VIRTIO_9P_MOUNT_TAG (bit 0): without it the device has no (valid) tag
    let tagged = !flip(1, 4);
    zoo::setup_device(Kind::P9, common_feats(tk) | tagged as u64, cfg);
    with(|w| {
        let mut d = P9Dev::new();
        d.bad_size = faulty;
        w.dev = Some(Box::new(d));
    });
    oplog(|| format!("VirtIO9p over {tk:?}, tag {tag:?}, faulty {faulty}"));
    if let Err(e) = zoo::with_transport(tk, P9Run { tag: if tagged { tag } else { String::new() } }) {
        violation("transport-construction-failed", "zoo", e);
    }
}
pub fn p9_run() {
    p9(false)
}
pub fn p9_faulty() {
    p9(true)
}

// ---------------------------------------------------------------------------------------------
// GPU

struct GpuRun {
    faulty: bool,
    edid_offered: bool,
    edid: Vec<u8>,
    display: (u32, u32),
}

fn take_log(n_hint: usize) -> Vec<GpuCmd> {
    let _ = n_hint;
    with(|w| w.personality::<GpuDev>().log.drain(..).collect())
}
fn take_cursor_log() -> Vec<GpuCmd> {
    with(|w| w.personality::<GpuDev>().cursor_log.drain(..).collect())
}

fn success_type(cmd: u32) -> u32 {
    match cmd {
        0x100 => OK_DISPLAY_INFO,
        0x10a => OK_EDID,
        _ => OK_NODATA,
    }
}

/// In faulty runs: the call must fail iff some command of it got a non-success response; the
/// driver may stop at the first failing command.
fn check_outcome<R: std::fmt::Debug>(op: &str, r: &Result<R, Error>, log: &[GpuCmd]) -> bool {
    let failed = log.iter().any(|c| c.resp != success_type(c.type_));
    if failed && r.is_ok() {
        violation(
            "gpu-error-ignored",
            op,
            format!("{op} returned Ok although the device answered {:x?}", log.iter().map(|c| (c.type_, c.resp)).collect::<Vec<_>>()),
        );
    }
    if !failed && r.is_err() {
        violation("gpu-result", op, format!("{op} failed with {r:?} although every response was the expected success type"));
    }
    if let Some(last) = log.last() {
        // nothing may be sent after a failed command
        if let Some(i) = log.iter().position(|c| c.resp != success_type(c.type_)) {
            if i + 1 != log.len() {
                violation("gpu-error-ignored", op, format!("{op} kept sending commands after command {:#x} failed with {:#x}", log[i].type_, log[i].resp));
            }
        }
        let _ = last;
    }
    !failed
}

fn decode_edid(e: &[u8]) -> (Option<(u32, u32)>, Vec<(u32, u32)>) {
    let pref = {
        let b = &e[0x36..0x36 + 18];
        let h = b[2] as u32 | (((b[4] >> 4) as u32) << 8);
        let v = b[5] as u32 | (((b[7] >> 4) as u32) << 8);
        if h == 0 || v == 0 { None } else { Some((h, v)) }
    };
    let mut st = Vec::new();
    for i in 0..8 {
        let (b0, b1) = (e[38 + 2 * i], e[39 + 2 * i]);
        if (b0, b1) == (1, 1) {
            continue;
        }
        let h = (b0 as u32 + 31) * 8;
        let v = match b1 >> 6 {
            0 => h * 10 / 16,
            1 => h * 3 / 4,
            2 => h * 4 / 5,
            _ => h * 9 / 16,
        };
        st.push((h, v));
    }
    (pref, st)
}

impl TransportFn<()> for GpuRun {
    fn call<T: Transport + 'static>(self, t: T) {
        let mut gpu = match Gpu::<T>::new(t) {
            Ok(g) => g,
            Err(e) => return violation("gpu-new-failed", "new", format!("{e:?}")),
        };
        let mut fb: Option<(u32, u32, u32)> = None; // w, h, resource id
        let mut fb_id: Option<u32> = None;
        let mut cursor_id: Option<u32> = None;
        let mut fill = 0u8;
        for _ in 0..(3 + choose(25)) {
            if violated() {
                break;
            }
            match choose(9) {
                0 => {
                    let r = gpu.resolution();
                    let log = take_log(1);
                    oplog(|| format!("resolution -> {r:?}"));
                    if log.len() != 1 || log[0].type_ != 0x100 {
                        violation("gpu-command-sequence", "resolution", format!("{:x?}", log.iter().map(|c| c.type_).collect::<Vec<_>>()));
                    }
                    if check_outcome("resolution", &r, &log) && r != Ok(self.display) {
                        violation("gpu-result", "resolution", format!("device display {:?}, driver returned {r:?}", self.display));
                    }
                }
                1 | 2 => {
                    let (w_, h_) = if flip(1, 3) && self.display.0 != 0 && self.display.1 != 0 { self.display } else { (1 + choose(96) as u32, 1 + choose(96) as u32) };
                    let use_setup = (w_, h_) == self.display && flip(1, 2);
                    let had = fb.is_some();
                    let r = if use_setup { gpu.setup_framebuffer().map(|b| b.len()) } else { gpu.change_resolution(w_, h_).map(|b| b.len()) };
                    let log = take_log(6);
                    oplog(|| format!("{}({w_}x{h_}) -> {r:?}", if use_setup { "setup_framebuffer" } else { "change_resolution" }));
                    let ok = check_outcome("change_resolution", &r, &log);
                    if ok {
                        let mut want: Vec<u32> = Vec::new();
                        if use_setup {
                            want.push(0x100);
                        }
                        if had {
                            want.extend_from_slice(&[0x103, 0x107, 0x102]);
                        }
                        want.extend_from_slice(&[0x101, 0x106, 0x103]);
                        let got: Vec<u32> = log.iter().map(|c| c.type_).collect();
                        if got != want {
                            violation("gpu-command-sequence", "change_resolution", format!("commands {got:x?}, expected {want:x?} (create, attach backing, set scanout)"));
                        } else {
                            let base = log.len() - 3;
                            let (cr, at, sc) = (&log[base], &log[base + 1], &log[base + 2]);
                            let id = cr.words[0];
                            if cr.words[1..4] != [1, w_, h_] || id == 0 {
                                violation("gpu-command-field", "RESOURCE_CREATE_2D", format!("fields {:x?} for {w_}x{h_}", &cr.words[..4]));
                            }
                            if at.words[0] != id || at.words[1] != 1 || at.words[4] != w_ * h_ * 4 {
                                violation("gpu-command-field", "RESOURCE_ATTACH_BACKING", format!("fields {:x?} for resource {id:#x} size {}", &at.words[..5], w_ * h_ * 4));
                            }
                            if sc.words[..6] != [0, 0, w_, h_, 0, id] {
                                violation("gpu-command-field", "SET_SCANOUT", format!("fields {:x?}, expected rect (0,0,{w_},{h_}) scanout 0 resource {id:#x}", &sc.words[..6]));
                            }
                            if had {
                                let old = fb_id.unwrap_or(0);
                                let (s0, de, un) = (&log[base - 3], &log[base - 2], &log[base - 1]);
                                if s0.words[..6] != [0, 0, 0, 0, 0, 0] || de.words[0] != old || un.words[0] != old {
                                    violation("gpu-command-field", "teardown", format!("teardown of resource {old:#x}: {:x?} {:x?} {:x?}", &s0.words[..6], de.words[0], un.words[0]));
                                }
                            }
                            if r != Ok((w_ * h_ * 4) as usize) && r.as_ref().map(|l| *l >= (w_ * h_ * 4) as usize) != Ok(true) {
                                violation("gpu-framebuffer-size", "change_resolution", format!("framebuffer slice of {r:?} bytes for {w_}x{h_}"));
                            }
                            fb = Some((w_, h_, id));
                            fb_id = Some(id);
                            nontrivial();
                        }
                    } else {
                        // after a device error the driver's view is undefined for this scenario
                        break;
                    }
                }
                3 | 4 => {
                    let r = gpu.flush();
                    let log = take_log(2);
                    oplog(|| format!("flush -> {r:?}"));
                    match fb {
                        None => {
                            if r.is_ok() || !log.is_empty() {
                                violation("gpu-result", "flush", format!("flush without framebuffer: {r:?}, {} commands", log.len()));
                            }
                        }
                        Some((w_, h_, id)) => {
                            if check_outcome("flush", &r, &log) {
                                let got: Vec<u32> = log.iter().map(|c| c.type_).collect();
                                if got != [0x105, 0x104] {
                                    violation("gpu-command-sequence", "flush", format!("commands {got:x?}, expected transfer then flush"));
                                } else {
                                    if log[0].words[..8] != [0, 0, w_, h_, 0, 0, id, 0] {
                                        violation("gpu-command-field", "TRANSFER_TO_HOST_2D", format!("{:x?}", &log[0].words[..8]));
                                    }
                                    if log[1].words[..5] != [0, 0, w_, h_, id] {
                                        violation("gpu-command-field", "RESOURCE_FLUSH", format!("{:x?}", &log[1].words[..5]));
                                    }
                                }
                            } else {
                                break;
                            }
                        }
                    }
                }
                5 => {
                    let ok_img = flip(3, 4);
                    fill = fill.wrapping_add(9);
                    let img = vec![fill; if ok_img { 64 * 64 * 4 } else { 100 }];
                    let (x, y, hx, hy) = (choose(5000) as u32, choose(5000) as u32, choose(64) as u32, choose(64) as u32);
                    let r = gpu.setup_cursor(&img, x, y, hx, hy);
                    let log = take_log(3);
                    let clog = take_cursor_log();
                    oplog(|| format!("setup_cursor(pos {x},{y} hot {hx},{hy}) -> {r:?}"));
                    if !ok_img {
                        if r != Err(Error::InvalidParam) || !log.is_empty() {
                            violation("gpu-result", "setup_cursor", format!("image of wrong size: {r:?}"));
                        }
                    } else if cursor_id.is_some() {
                        // a second setup re-creates an existing resource id: the device answers with an
                        // error; only require that the error is not ignored
                        check_outcome("setup_cursor", &r, &log);
                        if r.is_err() {
                            break;
                        }
                    } else if check_outcome("setup_cursor", &r, &log) {
                        let got: Vec<u32> = log.iter().map(|c| c.type_).collect();
                        if got != [0x101, 0x106, 0x105] || clog.len() != 1 || clog[0].type_ != 0x300 {
                            violation("gpu-command-sequence", "setup_cursor", format!("control {got:x?} cursor {:x?}", clog.iter().map(|c| c.type_).collect::<Vec<_>>()));
                        } else {
                            let id = log[0].words[0];
                            if log[0].words[1..4] != [1, 64, 64] || log[1].words[0] != id || log[1].words[4] != 64 * 64 * 4 || log[2].words[..8] != [0, 0, 64, 64, 0, 0, id, 0] {
                                violation("gpu-command-field", "setup_cursor", format!("{:x?} {:x?} {:x?}", &log[0].words[..4], &log[1].words[..5], &log[2].words[..8]));
                            }
                            if Some(id) == fb_id || id == 0 {
                                violation("gpu-command-field", "setup_cursor", format!("cursor resource id {id:#x} collides with the framebuffer resource"));
                            }
                            if clog[0].words[..8] != [0, x, y, 0, id, hx, hy, 0] {
                                violation("gpu-command-field", "UPDATE_CURSOR", format!("{:x?}, expected scanout 0 pos ({x},{y}) resource {id:#x} hot ({hx},{hy})", &clog[0].words[..8]));
                            }
                            let hh = with(|w| w.personality::<GpuDev>().resources.get(&id).map(|r| r.host_hash));
                            if hh != Some(hash_bytes(&img)) {
                                violation("gpu-cursor-image", "setup_cursor", "cursor image seen by the device differs from the caller's".into());
                            }
                            cursor_id = Some(id);
                        }
                    } else {
                        break;
                    }
                }
                6 => {
                    let (x, y) = (choose(u32::MAX as u64) as u32, choose(u32::MAX as u64) as u32);
                    let r = gpu.move_cursor(x, y);
                    let clog = take_cursor_log();
                    oplog(|| format!("move_cursor({x},{y}) -> {r:?}"));
                    if r.is_err() || clog.len() != 1 || clog[0].type_ != 0x301 || clog[0].words[..4] != [0, x, y, 0] {
                        violation("gpu-command-field", "MOVE_CURSOR", format!("{r:?} {:x?}", clog.first().map(|c| (c.type_, c.words.clone()))));
                    }
                }
                7 => {
                    // framebuffer content reaches the device at flush
                    if let Some((w_, h_, id)) = fb {
                        fill = fill.wrapping_add(31);
                        let mut data = Vec::new();
                        match gpu.change_resolution(w_, h_) {
                            Ok(buf) => {
                                for (i, b) in buf.iter_mut().enumerate() {
                                    *b = fill.wrapping_add(i as u8);
                                }
                                data = buf[..(w_ * h_ * 4) as usize].to_vec();
                            }
                            Err(_) => {}
                        }
                        let log1 = take_log(6);
                        if log1.iter().any(|c| c.resp != success_type(c.type_)) {
                            break;
                        }
                        let r = gpu.flush();
                        let log = take_log(2);
                        if check_outcome("flush", &r, &log) {
                            let hh = with(|w| w.personality::<GpuDev>().resources.get(&id).map(|r| r.host_hash));
                            if hh != Some(hash_bytes(&data)) {
                                violation("gpu-framebuffer-data", "flush", "framebuffer contents transferred to the device differ from what the caller wrote".into());
                            }
                        } else {
                            break;
                        }
                    }
                }
                _ => {
                    let which = choose(3);
                    let (pref, st) = decode_edid(&self.edid);
                    match which {
                        0 => {
                            let r = gpu.get_edid(0).map(|_| ());
                            let log = take_log(1);
                            oplog(|| format!("get_edid -> {r:?}"));
                            if !self.edid_offered {
                                if r != Err(Error::Unsupported) || !log.is_empty() {
                                    violation("gpu-edid", "get_edid", format!("EDID not negotiated: {r:?}, {} commands sent", log.len()));
                                }
                            } else {
                                check_outcome("get_edid", &r, &log);
                                if log.len() == 1 && (log[0].type_ != 0x10a || log[0].words[..2] != [0, 0]) {
                                    violation("gpu-command-field", "GET_EDID", format!("{:x?}", &log[0].words[..2]));
                                }
                            }
                        }
                        1 => {
                            let r = gpu.edid_preferred_resolution();
                            let log = take_log(1);
                            oplog(|| format!("edid_preferred_resolution -> {r:?}"));
                            if self.edid_offered && check_outcome("edid_preferred_resolution*", &r.as_ref().map(|_| ()).or_else(|e| if pref.is_none() && log.iter().all(|c| c.resp == OK_EDID) { Ok(()) } else { Err(*e) }), &log) {
                                match (pref, r) {
                                    (Some(p), Ok(g)) if p == g => {}
                                    (None, Err(_)) => {}
                                    (p, g) => violation("gpu-edid", "edid_preferred_resolution", format!("EDID says {p:?}, driver returned {g:?}")),
                                }
                            } else if !self.edid_offered && r != Err(Error::Unsupported) {
                                violation("gpu-edid", "edid_preferred_resolution", format!("EDID not negotiated: {r:?}"));
                            }
                        }
                        _ => {
                            let r = gpu.edid_supported_resolutions();
                            let log = take_log(1);
                            oplog(|| format!("edid_supported_resolutions -> {r:?}"));
                            if self.edid_offered && check_outcome("edid_supported_resolutions", &r, &log) {
                                let g = r.unwrap();
                                let mut a = st.clone();
                                let mut b = g.clone();
                                a.sort();
                                b.sort();
                                let sorted = g.windows(2).all(|w| w[0].0 as u64 * w[0].1 as u64 >= w[1].0 as u64 * w[1].1 as u64);
                                if a != b || !sorted {
                                    violation("gpu-edid", "edid_supported_resolutions", format!("EDID standard timings {st:?}, driver returned {g:?}"));
                                }
                            } else if !self.edid_offered && r.as_ref().err() != Some(&Error::Unsupported) {
                                violation("gpu-edid", "edid_supported_resolutions", format!("EDID not negotiated: {r:?}"));
                            }
                        }
                    }
                }
            }
            op_point();
        }
        let _ = self.faulty;
        drop(gpu);
    }
}

fn gpu(faulty: bool) {
    let tk = pick_tk();
    crate::scen::queue::draw_device_policy();
    let edid_offered = flip(2, 3);
    let feats = common_feats(tk) | (edid_offered as u64) << 1 | choose(2);
    zoo::setup_device(Kind::Gpu, feats, Kind::Gpu.default_config());
    // now and then the device reports an empty rectangle for scanout 0 (nothing plugged in)
    let display = match choose(12) {
        0 => (0, 1 + choose(128) as u32),
        1 => (0, 0),
        _ => (1 + choose(128) as u32, 1 + choose(128) as u32),
    };
    // EDID blob: random but with a base block; sometimes a QEMU-like one, sometimes degenerate
    let mut edid = vec![0u8; 1024];
    for (i, b) in edid.iter_mut().enumerate().take(256) {
        *b = choose(256) as u8 ^ i as u8;
    }
    if flip(1, 4) {
        for i in 0..8 {
            edid[38 + 2 * i] = 1;
            edid[39 + 2 * i] = 1;
        }
    }
    if flip(1, 4) {
        edid[0x36 + 2] = 0;
        edid[0x36 + 4] &= 0x0f;
    }
    with(|w| {
        let mut d = GpuDev::new();
        d.faulty = faulty;
        d.display = display;
        d.edid = edid.clone();
        w.dev = Some(Box::new(d));
        w.hal.pin_check = !faulty;
    });
    oplog(|| format!("VirtIOGpu over {tk:?}, features {feats:#x}, display {display:?}, faulty {faulty}"));
    if let Err(e) = zoo::with_transport(tk, GpuRun { faulty, edid_offered, edid, display }) {
        violation("transport-construction-failed", "zoo", e);
    }
    if !faulty {
        crate::world::check_nothing_shared("gpu", &[0, 1]);
    }
}
pub fn gpu_run() {
    gpu(false)
}
pub fn gpu_faulty() {
    gpu(true)
}

// ---------------------------------------------------------------------------------------------
// sound

struct SoundRun {
    faulty: bool,
}

fn take_ctl() -> Vec<CtlSeen> {
    with(|w| w.personality::<SoundDev>().ctl.drain(..).collect())
}

impl TransportFn<()> for SoundRun {
    fn call<T: Transport + 'static>(self, t: T) {
        let mut snd = match Sound::<T>::new(t) {
            Ok(s) => Box::new(s),
            Err(e) => return violation("sound-new-failed", "new", format!("{e:?}")),
        };
        if (snd.jacks(), snd.streams(), snd.chmaps()) != (2, 2, 1) {
            violation("sound-config", "new", format!("jacks/streams/chmaps {:?}", (snd.jacks(), snd.streams(), snd.chmaps())));
        }
        // the first operation triggers set_up (three info queries)
        let mut set_up = false;
        let mut params: [Option<u32>; 2] = [None, None]; // period bytes
        let mut sent: [Vec<u8>; 2] = [Vec::new(), Vec::new()];
        let mut nb: Vec<(u16, u32, Vec<u8>)> = Vec::new();
        let mut stamp = 0u8;
        for _ in 0..(4 + choose(30)) {
            if violated() {
                break;
            }
            let sid = choose(2) as u32;
            let k = choose(10);
            let before_ctl = take_ctl();
            let _ = before_ctl;
            match k {
                0 => {
                    let r = snd.output_streams();
                    let r2 = snd.input_streams();
                    let ctl = take_ctl();
                    oplog(|| format!("output_streams -> {r:?}, input_streams -> {r2:?}"));
                    if ctl.iter().any(|c| c.status != S_OK && c.code == 0x100) {
                        if r.is_ok() {
                            violation("sound-error-ignored", "output_streams", "PCM info query failed but output_streams returned Ok".into());
                        }
                        break;
                    }
                    set_up = set_up || r.is_ok();
                    if r.is_ok() && (r != Ok(vec![0]) || r2 != Ok(vec![1])) {
                        violation("sound-result", "output_streams", format!("{r:?} {r2:?}"));
                    }
                }
                1 => {
                    let r = (snd.rates_supported(sid).map(|x| x.bits()), snd.formats_supported(sid).map(|x| x.bits()), snd.channel_range_supported(sid), snd.features_supported(sid).map(|x| x.bits()));
                    let ctl = take_ctl();
                    if ctl.iter().any(|c| c.status != S_OK && c.code == 0x100) {
                        break;
                    }
                    oplog(|| format!("capabilities of stream {sid} -> {r:?}"));
                    let want = with(|w| {
                        let s = &w.personality::<SoundDev>().streams[sid as usize];
                        (s.rates, s.formats, s.channels_min..=s.channels_max, s.features)
                    });
                    match r {
                        (Ok(a), Ok(b), Ok(c), Ok(d)) => {
                            if (a, b, c.clone(), d) != want {
                                violation("sound-result", "capabilities", format!("device {want:?}, driver {:?}", (a, b, c, d)));
                            }
                            set_up = true;
                        }
                        other => violation("sound-result", "capabilities", format!("{other:?}")),
                    }
                }
                2 | 3 => {
                    let period = [0u32, 4, 16, 64, 100, 256][choose(6) as usize];
                    // a buffer of a few periods, or of many more than the transmit queue holds
                    let mult = [0u32, 1, 2, 3, 8, 16, 32, 40][choose(8) as usize];
                    let buffer = if flip(1, 6) { period + 3 } else { period * mult };
                    let valid = period != 0 && period <= buffer && buffer % period == 0;
                    let r = snd.pcm_set_params(sid, buffer, period, PcmFeatures::empty(), 2, PcmFormat::U8, PcmRate::Rate44100);
                    let ctl = take_ctl();
                    oplog(|| format!("pcm_set_params(stream {sid}, buffer {buffer}, period {period}) -> {r:?}"));
                    let setp: Vec<&CtlSeen> = ctl.iter().filter(|c| c.code == 0x101).collect();
                    if ctl.iter().any(|c| c.status != S_OK && c.code == 0x100) {
                        break;
                    }
                    if !valid {
                        if r != Err(Error::InvalidParam) || !setp.is_empty() {
                            violation("sound-param-check", "pcm_set_params", format!("invalid buffer/period accepted: {r:?}"));
                        }
                    } else if setp.len() != 1 {
                        violation("sound-command-sequence", "pcm_set_params", format!("{} SET_PARAMS commands", setp.len()));
                    } else {
                        let c = setp[0];
                        // words: stream_id, buffer_bytes, period_bytes, features, (channels|format|rate|pad)
                        if c.words[..4] != [sid, buffer, period, 0] || c.words[4] != u32::from_le_bytes([2, 4, 6, 0]) {
                            violation("sound-command-field", "PCM_SET_PARAMS", format!("{:x?}", c.words));
                        }
                        if (c.status == S_OK) != r.is_ok() {
                            violation("sound-error-ignored", "pcm_set_params", format!("device status {:#x}, driver returned {r:?}", c.status));
                        }
                        if r.is_ok() {
                            params[sid as usize] = Some(period);
                            set_up = true;
                        } else {
                            // device recorded the parameters although it reported an error in faulty mode
                            with(|w| {
                                if params[sid as usize].is_none() {
                                    w.personality::<SoundDev>().streams[sid as usize].params = None;
                                } else {
                                    let p = params[sid as usize].unwrap();
                                    w.personality::<SoundDev>().streams[sid as usize].params = Some((p, p, 0, 2, 4, 6));
                                }
                            });
                        }
                    }
                }
                4 => {
                    let which = choose(4);
                    let (name, code) = [("pcm_prepare", 0x102u32), ("pcm_release", 0x103), ("pcm_start", 0x104), ("pcm_stop", 0x105)][which as usize];
                    let r = match which {
                        0 => snd.pcm_prepare(sid),
                        1 => snd.pcm_release(sid),
                        2 => snd.pcm_start(sid),
                        _ => snd.pcm_stop(sid),
                    };
                    let ctl = take_ctl();
                    oplog(|| format!("{name}({sid}) -> {r:?}"));
                    if ctl.iter().any(|c| c.status != S_OK && c.code == 0x100) {
                        break;
                    }
                    let cs: Vec<&CtlSeen> = ctl.iter().filter(|c| (0x102..=0x105).contains(&c.code)).collect();
                    if cs.len() != 1 || cs[0].code != code || cs[0].words[0] != sid {
                        violation("sound-command-field", name, format!("{:x?}", cs.iter().map(|c| (c.code, c.words.clone())).collect::<Vec<_>>()));
                    } else if (cs[0].status == S_OK) != r.is_ok() {
                        violation("sound-error-ignored", name, format!("device status {:#x}, driver returned {r:?}", cs[0].status));
                    }
                    set_up = set_up || r.is_ok();
                }
                5 => {
                    let jack = choose(3) as u32;
                    let (a, s) = (choose(u32::MAX as u64) as u32, choose(u32::MAX as u64) as u32);
                    let r = snd.jack_remap(jack, a, s);
                    let ctl = take_ctl();
                    oplog(|| format!("jack_remap({jack}) -> {r:?}"));
                    if ctl.iter().any(|c| c.status != S_OK && (c.code == 0x100)) {
                        break;
                    }
                    let cs: Vec<&CtlSeen> = ctl.iter().filter(|c| c.code == 2).collect();
                    let jack_info_failed = with(|w| w.personality::<SoundDev>().jack_info_failed);
                    if jack_info_failed {
                        // the driver continues without jack information; nothing to assert here
                        break;
                    }
                    match jack {
                        0 => {
                            // jack 0 supports remapping
                            if cs.len() != 1 || cs[0].words[..3] != [0, a, s] {
                                violation("sound-command-field", "JACK_REMAP", format!("{:x?}", cs.iter().map(|c| c.words.clone()).collect::<Vec<_>>()));
                            } else if (cs[0].status == S_OK) != r.is_ok() {
                                violation("sound-error-ignored", "jack_remap", format!("device status {:#x}, driver returned {r:?}", cs[0].status));
                            }
                        }
                        1 => {
                            if r != Err(Error::Unsupported) || !cs.is_empty() {
                                violation("sound-result", "jack_remap", format!("jack without REMAP feature: {r:?}"));
                            }
                        }
                        _ => {
                            if r != Err(Error::InvalidParam) || !cs.is_empty() {
                                violation("sound-result", "jack_remap", format!("jack id out of range: {r:?}"));
                            }
                        }
                    }
                    set_up = true;
                }
                6 | 7 => {
                    // blocking playback
                    if !nb.is_empty() {
                        continue;
                    }
                    let Some(period) = params[sid as usize] else {
                        let r = snd.pcm_xfer(sid, &[1, 2, 3]);
                        let ctl = take_ctl();
                        if ctl.iter().any(|c| c.status != S_OK && c.code == 0x100) {
                            break;
                        }
                        if r.is_ok() {
                            violation("sound-xfer-before-params", "pcm_xfer", "transfer accepted before parameters were set".into());
                        }
                        continue;
                    };
                    let n = 1 + choose(period as u64 * 40) as usize;
                    stamp = stamp.wrapping_add(1);
                    let frames: Vec<u8> = (0..n).map(|i| stamp.wrapping_mul(53).wrapping_add(i as u8)).collect();
                    let r = snd.pcm_xfer(sid, &frames);
                    let done: Vec<(u16, u32, usize, u32)> = with(|w| w.personality::<SoundDev>().tx_done.drain(..).collect());
                    oplog(|| format!("pcm_xfer(stream {sid}, {n} bytes, period {period}) -> {r:?}"));
                    let failed = done.iter().any(|d| d.3 != S_OK);
                    if failed {
                        if r.is_ok() {
                            violation("sound-error-ignored", "pcm_xfer", "a transfer got an error status but pcm_xfer returned Ok".into());
                        }
                        break;
                    }
                    if let Err(e) = r {
                        violation("sound-result", "pcm_xfer", format!("{e:?}"));
                        break;
                    }
                    sent[sid as usize].extend_from_slice(&frames);
                    let played = with(|w| w.personality::<SoundDev>().streams[sid as usize].played.clone());
                    if played != sent[sid as usize] {
                        violation(
                            "sound-playback-data",
                            "pcm_xfer",
                            format!("device played {} bytes for stream {sid}, caller sent {} (first difference at {:?})", played.len(), sent[sid as usize].len(), played.iter().zip(&sent[sid as usize]).position(|(a, b)| a != b)),
                        );
                    }
                    if n > 32 * period as usize {
                        nontrivial();
                    }
                }
                8 => {
                    // non-blocking playback of exactly one period
                    let Some(period) = params[sid as usize] else { continue };
                    if nb.len() >= 30 {
                        continue;
                    }
                    stamp = stamp.wrapping_add(1);
                    let frames: Vec<u8> = (0..period as usize).map(|i| stamp.wrapping_mul(59).wrapping_add(i as u8)).collect();
                    match snd.pcm_xfer_nb(sid, &frames) {
                        Ok(tok) => {
                            oplog(|| format!("pcm_xfer_nb(stream {sid}) -> token {tok}"));
                            nb.push((tok, sid, frames));
                        }
                        Err(Error::QueueFull) => {}
                        Err(e) => violation("sound-result", "pcm_xfer_nb", format!("{e:?}")),
                    }
                }
                _ => {
                    // complete whatever the device finished
                    with(|w| {
                        w.run_device(3);
                    });
                    loop {
                        // completions may keep arriving while earlier ones are being consumed
                        let done: Vec<(u16, u32, usize, u32)> = with(|w| w.personality::<SoundDev>().tx_done.drain(..).collect());
                        if done.is_empty() {
                            break;
                        }
                        for (head, dsid, _len, st) in done {
                            if let Some(i) = nb.iter().position(|x| x.0 == head) {
                                let (tok, s, frames) = nb.remove(i);
                                let r = snd.pcm_xfer_ok(tok);
                                oplog(|| format!("pcm_xfer_ok({tok}) -> {r:?}"));
                                if r.is_err() {
                                    violation("sound-result", "pcm_xfer_ok", format!("{r:?}"));
                                }
                                if s != dsid {
                                    violation("sound-tx-stream", "pcm_xfer_nb", format!("chunk for stream {s} tagged {dsid}"));
                                }
                                if st == S_OK {
                                    sent[s as usize].extend_from_slice(&frames);
                                }
                                if nb.iter().any(|x| x.1 != s) {
                                    nontrivial();
                                }
                            }
                        }
                    }
                    for s in 0..2 {
                        let played = with(|w| w.personality::<SoundDev>().streams[s].played.clone());
                        if played != sent[s] && !violated() {
                            violation("sound-playback-data", "pcm_xfer_nb", format!("stream {s}: device played {} bytes, caller's completed chunks are {} bytes", played.len(), sent[s].len()));
                        }
                    }
                }
            }
            op_point();
            with(|w| w.check_no_lost_wakeup("sound"));
        }
        // let outstanding non-blocking transfers finish before dropping
        with(|w| w.drain_device());
        let done: Vec<(u16, u32, usize, u32)> = with(|w| w.personality::<SoundDev>().tx_done.drain(..).collect());
        for (head, ..) in done {
            if let Some(i) = nb.iter().position(|x| x.0 == head) {
                let (tok, ..) = nb.remove(i);
                let _ = snd.pcm_xfer_ok(tok);
            }
        }
        let _ = (set_up, self.faulty);
        drop(snd);
    }
}

fn sound(faulty: bool) {
    let tk = pick_tk();
    crate::scen::queue::draw_device_policy();
    zoo::setup_device(Kind::Sound, common_feats(tk), Kind::Sound.default_config());
    let both_output = flip(1, 2);
    // a lazy device only looks at its queues when the driver has nothing left to do but wait: the
    // transmit queue then fills completely before the first period is consumed
    let lazy = flip(1, 4);
    with(|w| {
        if lazy {
            w.cfg.step_eighths = 0;
            w.cfg.step_at_stores = false;
        }
        let mut d = SoundDev::new();
        d.faulty = faulty;
        if both_output {
            // direction stays as reported; the driver does not restrict transfers by direction
        }
        w.dev = Some(Box::new(d));
    });
    oplog(|| format!("VirtIOSound over {tk:?}, faulty {faulty}"));
    if let Err(e) = zoo::with_transport(tk, SoundRun { faulty }) {
        violation("transport-construction-failed", "zoo", e);
    }
    if !faulty {
        crate::world::check_nothing_shared("sound", &[0, 2]);
    }
}
pub fn sound_run() {
    sound(false)
}
pub fn sound_faulty() {
    sound(true)
}
