//! C16: network frames pass unmodified; receive buffers are never lost or duplicated.
//! Raw driver (caller-owned buffers) and buffer-managing driver.

use crate::devices::net::*;
use crate::world::*;
use crate::zoo::{self, Kind, NET_BUF, NET_QS, Net, NetRaw, TKind, TransportFn};
use virtio_drivers::Error;
use virtio_drivers::device::net::{RxBuffer, TxBuffer};
use virtio_drivers::transport::Transport;

fn frame(n: u64, len: usize) -> Vec<u8> {
    (0..len).map(|i| (n as u8).wrapping_mul(41).wrapping_add((i as u8).wrapping_mul(5)).wrapping_add((i >> 8) as u8)).collect()
}

fn posted(w: &World, q: u16) -> usize {
    w.avail_idx_mem(q).unwrap_or(0).wrapping_sub(w.dq[q as usize].used_idx) as usize
}

fn frame_len_pick(max: usize) -> usize {
    match choose(5) {
        0 => 0,
        1 => max,
        2 => max.saturating_sub(1),
        3 => choose(64) as usize,
        _ => choose(max as u64 + 1) as usize,
    }
}

fn check_tx(site: &str, want: &[u8]) {
    let got = with(|w| w.personality::<NetDev>().tx.pop_front());
    match got {
        None => violation("net-tx-missing", site, "no frame reached the device".into()),
        Some((_, f)) => {
            if f != want {
                violation("net-tx-data", site, format!("device received a {}-byte frame, caller sent {} bytes (first difference at {:?})", f.len(), want.len(), f.iter().zip(want).position(|(a, b)| a != b)));
            }
        }
    }
}

// ---------------------------------------------------------------------------------------------

struct RawRun {
    mac: [u8; 6],
}

struct RxPending {
    token: u16,
    buf: Vec<u8>,
}

impl TransportFn<()> for RawRun {
    fn call<T: Transport + 'static>(self, t: T) {
        let mut net = match NetRaw::<T>::new(t) {
            Ok(n) => n,
            Err(e) => {
                violation("net-new-failed", "new", format!("{e:?}"));
                return;
            }
        };
        if net.mac_address() != self.mac {
            violation("net-mac", "mac_address", format!("{:x?} vs device {:x?}", net.mac_address(), self.mac));
        }
        let hl = with(|w| hdr_len(&w.tr));
        let mut rx: Vec<RxPending> = Vec::new();
        let mut tx: Vec<(u16, Vec<u8>, Vec<u8>)> = Vec::new(); // token, whole buffer, frame
        let mut nframes = 0u64;
        let n_ops = 10 + choose(120);
        for _ in 0..n_ops {
            if violated() {
                break;
            }
            match choose(13) {
                12 => {
                    // blocking receive: posts the caller's buffer and waits for the device to fill
                    // it. Only called when it can complete and is unambiguous: nothing else posted,
                    // nothing delivered and unconsumed, and a frame on its way to the device.
                    let idle = rx.is_empty() && with(|w| w.personality::<NetDev>().delivered.is_empty() && w.personality::<NetDev>().inbound.is_empty());
                    if idle {
                        nframes += 1;
                        let f = frame(nframes, frame_len_pick(1526 - hl));
                        with(|w| w.personality::<NetDev>().inbound.push_back(f.clone()));
                        let mut buf = vec![0xCCu8; 1526 + choose(64) as usize];
                        let r = net.receive_wait(&mut buf);
                        oplog(|| format!("receive_wait (frame of {} bytes on its way) -> {r:?}", f.len()));
                        let rec = with(|w| w.personality::<NetDev>().delivered.pop_front());
                        match (r, rec) {
                            (Ok((h, l)), Some(rec)) => {
                                if h != hl || l != f.len() {
                                    violation("net-rx-length", "receive_wait", format!("returned header {h} packet {l}; device wrote header {hl} frame {}", f.len()));
                                } else if buf[h..h + l] != f[..] || buf[..h] != rec.hdr[..] {
                                    violation("net-rx-data", "receive_wait", "received bytes differ from what the device wrote".into());
                                }
                                nontrivial();
                            }
                            (r, rec) => violation("net-receive-wait", "receive_wait", format!("{r:?}; device delivered: {}", rec.is_some())),
                        }
                    }
                }
                0 | 1 => {
                    // post a receive buffer
                    let len = match choose(12) {
                        0 | 1 => choose(1526) as usize,
                        // large buffers: lengths around the 16-bit boundary must be shared whole
                        2 => [65535usize, 65536, 65537, 70000, 131072][choose(5) as usize],
                        _ => 1526 + choose(600) as usize,
                    };
                    let mut buf = vec![0xCCu8; len];
                    // SAFETY: kept in `rx` until completed.
                    let r = unsafe { net.receive_begin(&mut buf) };
                    oplog(|| format!("receive_begin({len}) -> {r:?}"));
                    match r {
                        Ok(token) => {
                            if len < 1526 {
                                violation("net-rx-small-buffer", "receive_begin", format!("buffer of {len} bytes accepted"));
                            }
                            rx.push(RxPending { token, buf });
                        }
                        Err(Error::InvalidParam) if len < 1526 => {}
                        Err(Error::QueueFull) if rx.len() >= NET_QS => {}
                        Err(e) => violation("net-receive-begin", "receive_begin", format!("{e:?} with {} buffers posted", rx.len())),
                    }
                }
                2 | 3 => {
                    // device gets frames to deliver
                    let k = 1 + choose(NET_QS as u64);
                    for _ in 0..k {
                        nframes += 1;
                        let f = frame(nframes, frame_len_pick(1526 - hl));
                        with(|w| w.personality::<NetDev>().inbound.push_back(f));
                    }
                    with(|w| {
                        w.run_device(k + 1);
                    });
                    oplog(|| format!("{k} frame(s) arrive at the device"));
                }
                4..=6 => {
                    let exp = with(|w| w.personality::<NetDev>().delivered.front().cloned());
                    let got = net.poll_receive();
                    if got != exp.as_ref().map(|r| r.head) {
                        violation("net-poll-receive", "poll_receive", format!("poll_receive()={got:?}, device delivered {:?}", exp.as_ref().map(|r| r.head)));
                    }
                    if let (Some(tok), Some(rec)) = (got, exp) {
                        if let Some(i) = rx.iter().position(|r| r.token == tok) {
                            let mut p = rx.remove(i);
                            // SAFETY: same buffer as passed to receive_begin.
                            let r = unsafe { net.receive_complete(tok, &mut p.buf) };
                            with(|w| {
                                w.personality::<NetDev>().delivered.pop_front();
                            });
                            oplog(|| format!("receive_complete({tok}) -> {r:?}"));
                            match r {
                                Ok((h, l)) => {
                                    if h != hl || l != rec.frame.len() {
                                        violation("net-rx-length", "receive_complete", format!("returned header {h} packet {l}; device wrote header {hl} frame {}", rec.frame.len()));
                                    } else if p.buf[h..h + l] != rec.frame[..] || p.buf[..h] != rec.hdr[..] {
                                        violation("net-rx-data", "receive_complete", "received bytes differ from what the device wrote".into());
                                    }
                                    if i != 0 {
                                        nontrivial();
                                    }
                                }
                                Err(e) => violation("net-receive-complete", "receive_complete", format!("{e:?}")),
                            }
                        }
                    }
                }
                7 | 8 => {
                    // blocking send
                    nframes += 1;
                    let f = frame(nframes, frame_len_pick(1514));
                    if tx.is_empty() {
                        let r = net.send(&f);
                        oplog(|| format!("send({}) -> {r:?}", f.len()));
                        if let Err(e) = r {
                            violation("net-send", "send", format!("{e:?}"));
                        }
                        check_tx("send", &f);
                    }
                }
                9 => {
                    // non-blocking transmit
                    let can = net.can_send();
                    nframes += 1;
                    let f = frame(nframes, frame_len_pick(1514));
                    let mut buf = vec![0x5Au8; hl + f.len()];
                    let fr = net.fill_buffer_header(&mut buf);
                    if fr != Ok(hl) {
                        violation("net-fill-header", "fill_buffer_header", format!("{fr:?}, negotiated header is {hl} bytes"));
                    }
                    buf[hl..].copy_from_slice(&f);
                    // SAFETY: kept in `tx` until completed.
                    let r = unsafe { net.transmit_begin(&buf) };
                    oplog(|| format!("transmit_begin({}) -> {r:?} (can_send {can})", f.len()));
                    match r {
                        Ok(tok) => tx.push((tok, buf, f)),
                        Err(Error::QueueFull) => {
                            if can && !with(|w| w.tr.negotiated(F_INDIRECT)) {
                                violation("net-can-send", "can_send", "can_send() was true but transmit_begin returned QueueFull".into());
                            }
                        }
                        Err(e) => violation("net-transmit-begin", "transmit_begin", format!("{e:?}")),
                    }
                }
                10 => {
                    if let Some(tok) = net.poll_transmit() {
                        if let Some(i) = tx.iter().position(|t| t.0 == tok) {
                            let (tok, buf, f) = tx.remove(i);
                            // SAFETY: same buffer as passed to transmit_begin.
                            let r = unsafe { net.transmit_complete(tok, &buf) };
                            if r.is_err() {
                                violation("net-transmit-complete", "transmit_complete", format!("{r:?}"));
                            }
                            // the device saw exactly this frame (any completion order)
                            let seen = with(|w| {
                                let d = w.personality::<NetDev>();
                                let i = d.tx.iter().position(|(h, _)| *h == tok);
                                i.and_then(|i| d.tx.remove(i))
                            });
                            match seen {
                                Some((_, g)) if g == f => {}
                                other => violation("net-tx-data", "transmit_complete", format!("frame of {} bytes: device saw {:?}", f.len(), other.map(|o| o.1.len()))),
                            }
                        } else {
                            violation("net-poll-transmit", "poll_transmit", format!("token {tok} not outstanding"));
                        }
                    }
                }
                _ => {
                    let _ = net.ack_interrupt();
                    if flip(1, 2) {
                        net.disable_interrupts();
                    } else {
                        net.enable_interrupts();
                    }
                }
            }
            // conservation: device-side posted + completed-unconsumed == buffers the caller handed over
            let (post, done) = with(|w| (posted(w, 0), w.personality::<NetDev>().delivered.len()));
            if post + done != rx.len() && !violated() {
                violation("net-rx-conservation", "receiveq", format!("{post} posted + {done} completed-unconsumed != {} buffers handed to the driver", rx.len()));
            }
            op_point();
            with(|w| w.check_no_lost_wakeup("net-raw"));
        }
        // finish transmissions
        with(|w| w.drain_device());
        let mut guard = 0;
        while !tx.is_empty() && !violated() && guard < 64 {
            guard += 1;
            match net.poll_transmit() {
                Some(tok) => {
                    if let Some(i) = tx.iter().position(|t| t.0 == tok) {
                        let (tok, buf, _) = tx.remove(i);
                        // SAFETY: same buffer.
                        let _ = unsafe { net.transmit_complete(tok, &buf) };
                    } else {
                        break;
                    }
                }
                None => {
                    violation("net-tx-never-completed", "finish", format!("{} transmit(s) never completed", tx.len()));
                    break;
                }
            }
        }
        drop(net);
        drop(rx);
    }
}

pub fn raw_run() {
    let tk = [TKind::Model, TKind::ModelLegacy, TKind::MmioModern, TKind::MmioLegacy, TKind::Pci, TKind::ModelPciLike][choose(6) as usize];
    crate::scen::queue::draw_device_policy();
    crate::scen::queue::draw_sharing_mode();
    let mut feats = F_VERSION_1 * choose(2) | F_INDIRECT * choose(2) | F_EVENT_IDX * choose(2) | F_ACCESS_PLATFORM * choose(2) | (1 << 5) | (1 << 16) | (choose(2) << 15);
    if tk.legacy() {
        feats &= !F_VERSION_1;
    }
    let mut cfg = Kind::NetRaw.default_config();
    let mac = [0x52, 0x54, choose(256) as u8, choose(256) as u8, choose(256) as u8, choose(256) as u8];
    cfg[0..6].copy_from_slice(&mac);
    zoo::setup_device(Kind::NetRaw, feats, cfg);
    with(|w| w.dev = Some(Box::new(NetDev::new())));
    oplog(|| format!("VirtIONetRaw over {tk:?} features {feats:#x} policy {:?}", with(|w| (w.cfg.serve, w.cfg.suppress))));
    if let Err(e) = zoo::with_transport(tk, RawRun { mac }) {
        violation("transport-construction-failed", "zoo", e);
    }
}

// ---------------------------------------------------------------------------------------------

struct BufRun {
    short: bool,
    mac: [u8; 6],
}

impl TransportFn<()> for BufRun {
    fn call<T: Transport + 'static>(self, t: T) {
        let mut net = match Net::<T>::new(t, NET_BUF) {
            Ok(n) => n,
            Err(e) => {
                violation("net-new-failed", "new", format!("{e:?}"));
                return;
            }
        };
        with(|w| w.check_no_lost_wakeup("net-new"));
        let hl = with(|w| hdr_len(&w.tr));
        let mut held: Vec<RxBuffer> = Vec::new();
        let mut nframes = 0u64;
        let mut received = 0u64;
        // buffers taken out of circulation because the device reported a used length shorter
        // than the header (the driver returns an error and gives the buffer up)
        let mut lost = 0usize;
        let n_ops = 10 + choose(150);
        for _ in 0..n_ops {
            if violated() {
                break;
            }
            match choose(10) {
                0 | 1 => {
                    let k = 1 + choose(NET_QS as u64 + 2);
                    for _ in 0..k {
                        nframes += 1;
                        let f = frame(nframes, frame_len_pick(NET_BUF - hl));
                        with(|w| w.personality::<NetDev>().inbound.push_back(f));
                    }
                    with(|w| {
                        w.run_device(k + 1);
                    });
                    oplog(|| format!("{k} frame(s) arrive at the device"));
                }
                2..=4 => {
                    let exp = with(|w| w.personality::<NetDev>().delivered.front().cloned());
                    let can = net.can_recv();
                    if can != exp.is_some() {
                        violation("net-can-recv", "can_recv", format!("can_recv()={can}, device has {} delivery pending", if exp.is_some() { "a" } else { "no" }));
                    }
                    let r = net.receive();
                    match (r, exp) {
                        (Err(Error::NotReady), None) => {}
                        (r, Some(rec)) if rec.short => {
                            with(|w| {
                                w.personality::<NetDev>().delivered.pop_front();
                            });
                            oplog(|| format!("receive of a delivery with a used length below the header -> {:?}", r.as_ref().map(|b| b.packet_len())));
                            match r {
                                Err(_) => {
                                    // the driver gives the buffer up - or puts it back on the
                                    // queue at once; both keep every buffer accounted for
                                    let (post, done) = with(|w| (posted(w, 0), w.personality::<NetDev>().delivered.len()));
                                    if post + done + held.len() + lost != NET_QS {
                                        lost += 1;
                                    } else {
                                        probe("malformed_rx_buffer_reposted");
                                    }
                                }
                                Ok(b) => {
                                    violation("net-short-length-accepted", "receive", format!("used length shorter than the {hl}-byte header, yet receive() returned a packet of {} bytes", b.packet_len()));
                                    held.push(b);
                                }
                            }
                        }
                        (Ok(b), Some(rec)) => {
                            with(|w| {
                                w.personality::<NetDev>().delivered.pop_front();
                            });
                            received += 1;
                            oplog(|| format!("receive -> packet of {} bytes", b.packet_len()));
                            if b.packet_len() != rec.frame.len() {
                                violation("net-rx-length", "receive", format!("packet_len()={}, device wrote a frame of {} bytes after the {hl}-byte header", b.packet_len(), rec.frame.len()));
                            } else if b.packet() != &rec.frame[..] {
                                violation("net-rx-data", "receive", "packet() differs from the frame the device wrote".into());
                            }
                            held.push(b);
                        }
                        (r, e) => violation("net-receive", "receive", format!("receive() -> {:?}, device delivery pending: {}", r.map(|b| b.packet_len()), e.is_some())),
                    }
                }
                5 | 6 => {
                    if !held.is_empty() {
                        let i = choose(held.len() as u64) as usize;
                        let b = held.remove(i);
                        let r = net.recycle_rx_buffer(b);
                        oplog(|| format!("recycle_rx_buffer -> {r:?}"));
                        if let Err(e) = r {
                            violation("net-recycle", "recycle_rx_buffer", format!("{e:?}"));
                        }
                    }
                }
                7 | 8 => {
                    nframes += 1;
                    let f = frame(nframes, frame_len_pick(1514));
                    let tb: TxBuffer = if flip(1, 3) {
                        TxBuffer::from(&f)
                    } else {
                        let mut tb = net.new_tx_buffer(f.len());
                        tb.packet_mut().copy_from_slice(&f);
                        tb
                    };
                    if tb.packet_len() != f.len() || tb.packet() != &f[..] {
                        violation("net-tx-buffer", "TxBuffer", format!("buffer for a {}-byte frame has packet_len {}", f.len(), tb.packet_len()));
                    }
                    let r = net.send(tb);
                    oplog(|| format!("send({}) -> {r:?}", f.len()));
                    if let Err(e) = r {
                        violation("net-send", "send", format!("{e:?}"));
                    }
                    check_tx("send", &f);
                }
                _ => {
                    let _ = net.ack_interrupt();
                    let _ = net.can_send();
                    if flip(1, 2) {
                        net.disable_interrupts();
                    } else {
                        net.enable_interrupts();
                    }
                    if net.mac_address() != self.mac {
                        violation("net-mac", "mac_address", format!("{:x?} vs device {:x?}", net.mac_address(), self.mac));
                    }
                    // a held buffer stays the caller's: what it writes there, it reads back, and
                    // nothing else changes it
                    if let Some(b) = held.last_mut() {
                        let l = b.packet_len();
                        let before = b.packet().to_vec();
                        if b.packet_mut().len() != l {
                            violation("net-rx-length", "packet_mut", format!("packet_mut() is {} bytes, packet_len() {l}", b.packet_mut().len()));
                        }
                        for x in b.packet_mut().iter_mut() {
                            *x = !*x;
                        }
                        if b.packet().iter().zip(before.iter()).any(|(a, o)| *a != !*o) {
                            violation("net-rx-data", "packet_mut", "bytes written through packet_mut() are not what packet() returns".into());
                        }
                        for x in b.packet_mut().iter_mut() {
                            *x = !*x;
                        }
                    }
                }
            }
            let (post, done) = with(|w| (posted(w, 0), w.personality::<NetDev>().delivered.len()));
            if post + done + held.len() + lost != NET_QS && !violated() {
                violation(
                    "net-rx-conservation",
                    "receiveq",
                    format!("{post} posted + {done} completed-unconsumed + {} held by the caller + {lost} given up after malformed lengths != QUEUE_SIZE {NET_QS}", held.len()),
                );
            }
            if held.is_empty() && done == 0 && post + lost == NET_QS && received > NET_QS as u64 {
                nontrivial();
            }
            op_point();
            with(|w| w.check_no_lost_wakeup("net"));
        }
        for b in held.drain(..) {
            let _ = net.recycle_rx_buffer(b);
        }
        let (post, done) = with(|w| (posted(w, 0), w.personality::<NetDev>().delivered.len()));
        if post + done + lost != NET_QS && !violated() {
            violation("net-rx-conservation", "finish", format!("after recycling everything {post} posted + {done} completed + {lost} given up != QUEUE_SIZE {NET_QS}"));
        }
        drop(net);
    }
}

pub fn buf_run() {
    buf(false)
}

/// Managed driver against a NIC that now and then reports a used length shorter than the
/// virtio-net header (C07): the driver must fail that receive cleanly and keep its buffer
/// bookkeeping and the platform ledger intact.
pub fn buf_run_short_len() {
    buf(true)
}

fn buf(short: bool) {
    let tk = [TKind::Model, TKind::ModelLegacy, TKind::MmioModern, TKind::MmioLegacy, TKind::Pci, TKind::ModelPciLike][choose(6) as usize];
    crate::scen::queue::draw_device_policy();
    crate::scen::queue::draw_sharing_mode();
    let mut feats = F_VERSION_1 * choose(2) | F_INDIRECT * choose(2) | F_EVENT_IDX * choose(2) | F_ACCESS_PLATFORM * choose(2) | (1 << 5) | (1 << 16);
    if tk.legacy() {
        feats &= !F_VERSION_1;
    }
    let mut cfg = Kind::Net.default_config();
    let mac = [0x52, 0x54, choose(256) as u8, choose(256) as u8, choose(256) as u8, choose(256) as u8];
    cfg[0..6].copy_from_slice(&mac);
    zoo::setup_device(Kind::Net, feats, cfg);
    with(|w| {
        let mut d = NetDev::new();
        d.short_len = short;
        w.dev = Some(Box::new(d));
    });
    oplog(|| format!("VirtIONet over {tk:?} features {feats:#x} policy {:?}", with(|w| (w.cfg.serve, w.cfg.suppress))));
    if let Err(e) = zoo::with_transport(tk, BufRun { short, mac }) {
        violation("transport-construction-failed", "zoo", e);
    }
}
