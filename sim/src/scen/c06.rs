//! C06: queue memory laid out, registered and released correctly - the configuration grid
//! (16 sizes x layout x 8 flag combinations x 5 transport answers) is enumerated completely
//! inside the simulated world; the seed varies DMA placement and the queue index.

use crate::mtransport::ModelTransport;
use crate::zoo::{self, TKind, TransportFn};
use virtio_drivers::transport::Transport;
use crate::scen::queue::{SIZES, new_queue};
use crate::world::*;
use virtio_drivers::Error;

pub const GRID: u64 = 16 * 2 * 8 * 5;

pub fn grid_run() {
    run_cell(choose(GRID), None);
}

/// The same cell checks over the real MMIO (legacy and modern) and PCI transports: what reaches the
/// register-level device must be the areas the queue allocated. Only the "queue free and large
/// enough" answer: the other answers are the model transport's.
pub fn real_transports() {
    let tk = [TKind::MmioModern, TKind::MmioLegacy, TKind::SomeMmio, TKind::Pci, TKind::SomePci][choose(5) as usize];
    let size_i = choose(16);
    let flags = choose(8);
    let cell = size_i + 16 * (tk.legacy() as u64) + 32 * flags;
    run_cell(cell, Some(tk));
}

struct Cell {
    cell: u64,
    size: usize,
    legacy: bool,
    indirect: bool,
    event_idx: bool,
    ap: bool,
    answer: u64,
    qidx: u16,
    fail_second: bool,
}

fn run_cell(cell: u64, tk: Option<TKind>) {
    let size = SIZES[(cell % 16) as usize];
    let legacy = (cell / 16) % 2 == 1;
    let flags = (cell / 32) % 8;
    let answer = (cell / 256) % 5;
    let (indirect, event_idx, ap) = (flags & 1 != 0, flags & 2 != 0, flags & 4 != 0);
    let qidx = choose(4) as u16;
    let skew = choose(1 << 16);
    // Sometimes the platform's DMA memory lies just below a 4 GiB boundary, so that the areas of
    // one queue differ in the upper 32 bits of their addresses.
    let near_4g = if flip(1, 4) { Some(((2 + choose(6)) << 32) - (1 + choose(12)) * PAGE) } else { None };
    let fail_second = answer == 0 && !legacy && flip(1, 4);
    oplog(|| format!("cell {cell}: size {size} legacy {legacy} indirect {indirect} event_idx {event_idx} access_platform {ap} answer {answer} queue {qidx} placement+{skew} pages fail_second_alloc {fail_second}"));
    with(|w| {
        w.cfg.device_active = false;
        w.ensure_queues(4, 32768);
        w.tr.legacy = legacy;
        w.tr.device_type = 2;
        w.tr.status = ST_ACK | ST_DRIVER | ST_FEATURES_OK;
        w.hal.next_dma += skew * PAGE;
        if let Some(base) = near_4g {
            w.hal.next_dma = base;
        }
        let r = &mut w.tr.queues[qidx as usize];
        match answer {
            0 => r.max_size = 32768,
            1 => r.pretend_used = true,
            2 => r.max_size = size as u32,
            3 => r.max_size = size as u32 / 2,
            _ => r.max_size = 0,
        }
        if fail_second {
            w.hal.fail_alloc_at = Some(2);
        }
        w.hal.capture = Some(Vec::new());
        w.tr.capture = Some(Vec::new());
    });
    let c = Cell { cell, size, legacy, indirect, event_idx, ap, answer, qidx, fail_second };
    match tk {
        None => c.call(ModelTransport::new()),
        Some(tk) => {
            if let Err(e) = zoo::with_transport(tk, c) {
                violation("transport-construction-failed", "zoo", e);
            }
        }
    }
}

impl TransportFn<()> for Cell {
    fn call<T: Transport + 'static>(self, mut t: T) {
        let Cell { cell, size, legacy, indirect, event_idx, ap, answer, qidx, fail_second } = self;
        if legacy {
            // part of the handshake every driver performs before it creates queues
            t.set_guest_page_size(PAGE as u32);
        }
        // the transport's own construction may have allocated nothing, but start the captures here
        with(|w| {
            w.hal.capture = Some(Vec::new());
            w.tr.capture = Some(Vec::new());
        });
        let r = new_queue(size, &mut t, qidx, indirect, event_idx, ap);
        let (hal, tr) = with(|w| (w.hal.capture.take().unwrap(), w.tr.capture.take().unwrap()));
        // the injected failure of the second allocation only counts if there was a second one (a
        // layout that needs a single region is as good as one that needs two)
        let fail_second = fail_second && hal.iter().any(|e| matches!(e, HalEv::Alloc { failed: true, .. }));
        let expect_err = match answer {
            1 => Some(Error::AlreadyUsed),
            3 | 4 => Some(Error::InvalidParam),
            _ if fail_second => Some(Error::DmaError),
            _ => None,
        };
        let site = if legacy { "legacy" } else { "modern" };
        match (&r, expect_err) {
            (Err(e), Some(want)) => {
                if *e != want {
                    violation("queue-new-wrong-error", site, format!("VirtQueue::new returned {e:?}, expected {want:?}"));
                }
                let allocs = hal.iter().filter(|e| matches!(e, HalEv::Alloc { .. })).count();
                let sets = tr.iter().filter(|e| matches!(e, TrEv::QueueSet { .. })).count();
                if !fail_second && (allocs != 0 || sets != 0) {
                    violation("refused-queue-side-effect", site, format!("refused creation performed {allocs} allocation(s) and {sets} queue_set call(s)"));
                }
                if fail_second {
                    nontrivial();
                    if sets != 0 {
                        violation("queue-set-after-failed-alloc", site, "queue registered although an allocation failed".into());
                    }
                    with(|w| {
                        if !w.hal.dma.is_empty() {
                            let n = w.hal.dma.len();
                            w.violation("dma-leak", site, format!("{n} DMA region(s) leaked when the second allocation failed"));
                        }
                    });
                }
            }
            (Ok(_), Some(want)) => violation("queue-new-accepted-wrongly", site, format!("VirtQueue::new succeeded, expected {want:?}")),
            (Err(e), None) => violation("queue-new-refused-wrongly", site, format!("VirtQueue::new failed with {e:?} on a free queue of sufficient size")),
            (Ok(_), None) => {
                nontrivial();
                let sets: Vec<&TrEv> = tr.iter().filter(|e| matches!(e, TrEv::QueueSet { .. })).collect();
                if sets.len() != 1 {
                    violation("queue-set-count", site, format!("{} queue_set calls", sets.len()));
                } else if let TrEv::QueueSet { q, size: s, desc, driver, device } = sets[0] {
                    let n = size as u64;
                    if *q != qidx || *s != size as u32 {
                        violation("queue-set-args", site, format!("queue_set(queue {q}, size {s}) for queue {qidx} of size {size}"));
                    }
                    let areas = [("descriptor area", *desc, 16 * n, 16u64), ("driver area", *driver, 6 + 2 * n, 2), ("device area", *device, 6 + 8 * n, 4)];
                    for (name, a, _l, al) in areas {
                        if a % al != 0 {
                            violation("queue-area-misaligned", site, format!("{name} {a:#x} not {al}-byte aligned"));
                        }
                    }
                    for i in 0..3 {
                        for j in i + 1..3 {
                            let (a, b) = (areas[i], areas[j]);
                            if a.1 < b.1 + b.2 && b.1 < a.1 + a.2 {
                                violation("queue-areas-overlap", site, format!("{} {:#x}+{} overlaps {} {:#x}+{}", a.0, a.1, a.2, b.0, b.1, b.2));
                            }
                        }
                    }
                    with(|w| {
                        for (name, a, l, _) in areas {
                            match w.hal.find_dma(a, l as usize).cloned() {
                                None => w.violation("queue-area-not-dma", site, format!("{name} {a:#x}+{l} is not wholly inside one live DMA allocation")),
                                Some(r) => {
                                    let dev_writes = name == "device area";
                                    let ok = if dev_writes { r.dir != Dir::DriverToDevice } else { r.dir != Dir::DeviceToDriver };
                                    if !ok {
                                        w.violation("queue-area-direction", site, format!("{name} in DMA memory allocated {}", r.dir.name()));
                                    }
                                    if r.ap != ap {
                                        w.violation("dma-access-platform", site, format!("DMA allocated with access_platform={} for a queue with {}", r.ap, ap));
                                    }
                                }
                            }
                        }
                    });
                    let allocs: Vec<&HalEv> = hal.iter().filter(|e| matches!(e, HalEv::Alloc { .. })).collect();
                    if legacy {
                        if allocs.len() != 1 {
                            violation("legacy-allocation-count", site, format!("{} allocations for the legacy layout", allocs.len()));
                        }
                        let used_want = (*desc + 16 * n + 6 + 2 * n + PAGE - 1) & !(PAGE - 1);
                        if *desc % PAGE != 0 || *driver != *desc + 16 * n || *device != used_want {
                            violation(
                                "legacy-layout",
                                site,
                                format!("legacy layout: table {desc:#x}, available ring {driver:#x} (want {:#x}), used ring {device:#x} (want {used_want:#x})", *desc + 16 * n),
                            );
                        }
                    }
                }
            }
        }
        // release: transport (reset) first, then the queue, as the drivers do
        with(|w| w.hal.capture = Some(Vec::new()));
        let allocated: Vec<(u64, usize, usize)> = hal
            .iter()
            .filter_map(|e| match e {
                HalEv::Alloc { paddr, vaddr, pages, failed: false, .. } => Some((*paddr, *vaddr, *pages)),
                _ => None,
            })
            .collect();
        drop(t);
        drop(r);
        let rel = with(|w| w.hal.capture.take().unwrap());
        let mut freed: Vec<(u64, usize, usize)> = hal
            .iter()
            .chain(rel.iter())
            .filter_map(|e| match e {
                HalEv::Dealloc { paddr, vaddr, pages, .. } => Some((*paddr, *vaddr, *pages)),
                _ => None,
            })
            .collect();
        let mut a = allocated.clone();
        a.sort();
        freed.sort();
        if a != freed && !violated() {
            violation(
                "dma-release-mismatch",
                site,
                format!("allocated {:x?} (paddr, pages) but released {:x?}", a.iter().map(|x| (x.0, x.2)).collect::<Vec<_>>(), freed.iter().map(|x| (x.0, x.2)).collect::<Vec<_>>()),
            );
        }
        with(|w| {
            let key = crate::rng::mix(&[cell]);
            w.stats.states.insert(key);
        });
    }
}
