//! C11: the real `PciTransport` over an emulated PCI function with generated configuration space
//! (capability lists in any order with duplicates, short and foreign capabilities; BARs of every
//! kind and size; offset/length/multiplier over the full 32-bit range). The expected outcome is
//! computed independently in 128-bit arithmetic.

use crate::hal::SimHal;
use crate::pcidev::*;
use crate::world::*;
use virtio_drivers::transport::pci::PciTransport;
use virtio_drivers::transport::pci::bus::PciRoot;
use virtio_drivers::transport::{DeviceStatus, Transport};

#[derive(Clone, Debug)]
struct Cap {
    id: u8,
    cfg_type: u8,
    cap_len: u8,
    bar: u8,
    offset: u32,
    length: u32,
    extra: u32,
}

#[derive(Debug, PartialEq, Clone, Copy)]
enum Verdict {
    Valid,
    Invalid,
    /// the statement leaves the outcome open (e.g. 4-byte but not 8-byte aligned common window)
    Either,
}

struct Chosen {
    common: Option<Cap>,
    notify: Option<Cap>,
    isr: Option<Cap>,
    device: Option<Cap>,
}

fn known_device_type(id: u16) -> bool {
    match id {
        0x1000 | 0x1001 | 0x1002 | 0x1003 | 0x1004 | 0x1005 | 0x1009 => true,
        x if x >= 0x1040 => {
            let t = x - 0x1040;
            (1..=13).contains(&t) || (16..=25).contains(&t)
        }
        _ => false,
    }
}

fn choose_caps(caps: &[Cap]) -> Chosen {
    let mut c = Chosen { common: None, notify: None, isr: None, device: None };
    for cap in caps {
        if cap.id != 0x09 || cap.cap_len < 16 {
            continue;
        }
        // "The driver MUST ignore any vendor-specific capability structure which has a reserved
        // bar value."
        if cap.bar > 5 {
            continue;
        }
        match cap.cfg_type {
            1 if c.common.is_none() => c.common = Some(cap.clone()),
            2 if cap.cap_len >= 20 && c.notify.is_none() => c.notify = Some(cap.clone()),
            3 if c.isr.is_none() => c.isr = Some(cap.clone()),
            4 if c.device.is_none() => c.device = Some(cap.clone()),
            _ => {}
        }
    }
    c
}

fn window_verdict(f: &PciFunc, cap: &Cap, need: u128, align_must: u128, align_lib: u128) -> Verdict {
    if cap.bar > 5 {
        return Verdict::Invalid;
    }
    let Some((addr, size)) = f.mem_bar(cap.bar as usize) else {
        return Verdict::Invalid;
    };
    if addr == 0 {
        return Verdict::Invalid;
    }
    let (off, len) = (cap.offset as u128, cap.length as u128);
    if off + len > size as u128 || len < need {
        return Verdict::Invalid;
    }
    let a = addr as u128 + off;
    if a % align_must != 0 {
        return Verdict::Invalid;
    }
    if a % align_lib != 0 {
        return Verdict::Either;
    }
    Verdict::Valid
}

fn combine(vs: &[Verdict]) -> Verdict {
    if vs.contains(&Verdict::Invalid) {
        Verdict::Invalid
    } else if vs.contains(&Verdict::Either) {
        Verdict::Either
    } else {
        Verdict::Valid
    }
}

fn draw_u32_near(size: u64, len: u32) -> u32 {
    let s = size.min(u32::MAX as u64) as u32;
    match choose(9) {
        0 => 0,
        1 => s.wrapping_sub(len),
        2 => s.wrapping_sub(len).wrapping_add(1),
        3 => 0u32.wrapping_sub(len),
        4 => u32::MAX,
        5 => 0x8000_0000,
        6 => (choose(s as u64 / 4 + 1) as u32) * 4,
        7 => choose(s as u64 + 1) as u32,
        _ => choose(u32::MAX as u64) as u32,
    }
}

pub fn run() {
    with(|w| {
        w.cfg.device_active = false;
        w.cfg.validate = false;
    });
    // ---- generate the function
    let vendor = if flip(1, 10) { choose(0x10000) as u16 } else { 0x1af4 };
    let device_id = match choose(8) {
        0 => [0x1000u16, 0x1001, 0x1003, 0x1005, 0x1009, 0x1002, 0x1004][choose(7) as usize],
        1 => [0x1040u16, 0x103f, 0x104e, 0x104f, 0x105a, 0x1006, 0x0fff][choose(7) as usize],
        _ => 0x1040 + [1u16, 2, 3, 4, 9, 16, 18, 19, 25][choose(9) as usize],
    };
    let mut f = PciFunc::new(vendor, device_id);
    // BARs: mostly reasonable memory BARs, sometimes anything
    let mut i = 0;
    while i < 6 {
        let giant = flip(1, 8);
        match choose(7) {
            0 => f.set_bar(i, BarKind::None, 0, false, 0),
            1 => {
                let size = if giant { crate::scen::c12::pow2(24, 31) } else { crate::scen::c12::pow2(4, 20) };
                let addr = if flip(1, 8) { 0 } else { size * (1 + choose(3)) & 0xffff_ffff };
                f.set_bar(i, BarKind::Mem32, size, flip(1, 2), addr);
            }
            2 | 3 => {
                let size = if giant { crate::scen::c12::pow2(32, 63) } else { crate::scen::c12::pow2(4, 24) };
                let addr = if flip(1, 8) { 0 } else { size.wrapping_mul(1 + choose(3)) | if flip(1, 2) && size < (1 << 32) { 0x8_0000_0000 / size.max(1) * size } else { 0 } };
                f.set_bar(i, BarKind::Mem64, size, flip(1, 2), addr);
                if i < 5 {
                    i += 1;
                }
            }
            4 => f.set_bar(i, BarKind::Io, crate::scen::c12::pow2(2, 16), false, 0x1000 * (1 + choose(8))),
            5 => f.set_bar(i, BarKind::Below1M, crate::scen::c12::pow2(4, 16), false, 0x10000 * (1 + choose(8))),
            _ => f.set_bar(i, if flip(1, 2) { BarKind::Reserved3 } else { BarKind::None }, 0x1000, false, 0x4000_0000),
        }
        i += 1;
    }
    f.command = choose(8) as u16;
    // capabilities
    let n = 3 + choose(6) as usize;
    let mut caps: Vec<Cap> = Vec::new();
    let templated = flip(2, 3);
    let mem_bars: Vec<usize> = (0..6).filter(|i| f.mem_bar(*i).is_some_and(|(a, s)| a != 0 && s >= 0x2000)).collect();
    let mut big_notify = false;
    for k in 0..n {
        let id = if flip(1, 6) { [0x01u8, 0x05, 0x10, 0x11][choose(4) as usize] } else { 0x09 };
        let cfg_type = if templated && k < 4 { (k + 1) as u8 } else { [1u8, 2, 3, 4, 5, 0, 6, 1, 2, 3, 4][choose(11) as usize] };
        let cap_len = [16u8, 20, 24, 16, 20, 15, 12, 8, 19, 255][choose(if templated { 5 } else { 10 }) as usize];
        let bar = if templated && !mem_bars.is_empty() && flip(7, 8) {
            mem_bars[choose(mem_bars.len() as u64) as usize] as u8
        } else if flip(1, 10) {
            [6u8, 7, 9, 59, 60, 63, 64, 200, 255][choose(9) as usize]
        } else {
            choose(6) as u8
        };
        let bsize = f.mem_bar(bar as usize).map(|x| x.1).unwrap_or(0x1000);
        let need: u32 = match cfg_type {
            1 => 56,
            2 => 0x100,
            3 => 1,
            _ => 64,
        };
        let (offset, length) = if templated && flip(5, 6) {
            // disjoint slots of 0x400 bytes; the device-configuration window also gets lengths
            // that are not a whole number of words
            let len = if cfg_type == 4 { [64u32, 4, 5, 6, 7, 9, 13, 255][choose(8) as usize] } else { need.max(4) };
            if cfg_type == 2 && bsize >= 0x10_0000 && flip(1, 3) {
                // a page (or more) of notification area per queue: offsets beyond 64 Ki u16 units
                big_notify = true;
                (0x8_0000, 0x8_0000)
            } else {
                ((k as u32 % 8) * 0x400, len)
            }
        } else {
            let length = match choose(8) {
                0 => need,
                1 => need.wrapping_sub(1),
                2 => bsize.min(u32::MAX as u64) as u32,
                3 => (bsize.min(u32::MAX as u64) as u32).wrapping_add(1),
                4 => u32::MAX,
                5 => 0,
                6 => 0x8000_0000,
                _ => choose(0x2000) as u32,
            };
            (draw_u32_near(bsize, length), length)
        };
        let mut extra = [4u32, 0, 2, 8, 1, 3, 0x1000, 0x8000_0000, 0xffff_fffe][choose(if templated { 4 } else { 9 }) as usize];
        if big_notify && cfg_type == 2 && length == 0x8_0000 {
            extra = [0x1000u32, 0x2000, 0x4000][choose(3) as usize];
        }
        caps.push(Cap { id, cfg_type, cap_len, bar, offset, length, extra });
    }
    // order: any
    for k in (1..caps.len()).rev() {
        let j = choose(k as u64 + 1) as usize;
        caps.swap(k, j);
    }
    let raw: Vec<(u8, u8, u8, u8, u32, u32, u32)> = caps.iter().map(|c| (c.id, c.cfg_type, c.cap_len, c.bar, c.offset, c.length, c.extra)).collect();
    write_caps(&mut f, &raw);
    let caps: Vec<Cap> = caps.into_iter().take(9).collect(); // write_caps stops when the space is full
    if flip(1, 12) {
        f.raw[6] &= !0x10; // no capability list at all
    }
    let has_list = f.raw[6] & 0x10 != 0;
    // ---- independent verdict
    let chosen = choose_caps(if has_list { &caps } else { &[] });
    let upper_half_involved = [&chosen.common, &chosen.notify, &chosen.isr, &chosen.device]
        .iter()
        .any(|c| c.as_ref().is_some_and(|c| c.bar <= 5 && f.bar_kind[c.bar as usize] == BarKind::Mem64Hi));
    let reserved_bar_involved = [&chosen.common, &chosen.notify, &chosen.isr, &chosen.device].iter().any(|c| c.as_ref().is_some_and(|c| c.bar > 5));
    let mut verdict = if vendor != 0x1af4 || !known_device_type(device_id) {
        Verdict::Invalid
    } else {
        match (&chosen.common, &chosen.notify, &chosen.isr) {
            (Some(c), Some(nf), Some(is)) => {
                let mut vs = vec![window_verdict(&f, c, 56, 4, 8), window_verdict(&f, nf, 2, 2, 2), window_verdict(&f, is, 1, 1, 1)];
                if nf.extra % 2 != 0 {
                    vs.push(Verdict::Invalid);
                }
                if let Some(d) = &chosen.device {
                    vs.push(window_verdict(&f, d, 4, 4, 4));
                }
                combine(&vs)
            }
            _ => Verdict::Invalid,
        }
    };
    if verdict == Verdict::Invalid && vendor == 0x1af4 && known_device_type(device_id) {
        // a window that is invalid only after an earlier one in evaluation order... any Err is fine
    }
    oplog(|| format!("vendor {vendor:#x} device {device_id:#x} command {:#x} BARs {:?} sizes {:x?} regs {:x?}", f.command, f.bar_kind, f.bar_size, f.bar_regs));
    oplog(|| format!("capabilities (list present: {has_list}): {caps:x?}"));
    oplog(|| format!("independent verdict: {verdict:?}"));
    // device side of the structures: served exactly at the first sufficiently long capability of each type
    let to_win = |c: &Cap| Win { bar: c.bar, off: c.offset as u64, len: c.length as u64 };
    let nq = [3usize, 9, 12, 17][choose(4) as usize];
    let mult = chosen.notify.as_ref().map(|c| c.extra).unwrap_or(0);
    let notify_len = chosen.notify.as_ref().map(|c| c.length).unwrap_or(0);
    let offs: Vec<u16> = (0..nq as u16)
        .map(|q| {
            if mult == 0 {
                0
            } else {
                let max = (notify_len.saturating_sub(2) as u64 / mult as u64).min(0xffff) as u16;
                if max == 0 { 0 } else { ((q as u32 * 3) % (max as u32 + 1)) as u16 }
            }
        })
        .collect();
    f.virtio = Some(VirtioPci {
        common: chosen.common.as_ref().map(to_win).unwrap_or_default(),
        notify: chosen.notify.as_ref().map(to_win).unwrap_or_default(),
        notify_mult: mult,
        isr: chosen.isr.as_ref().map(to_win).unwrap_or_default(),
        devcfg: chosen.device.as_ref().map(to_win),
        queue_notify_off: offs,
        strict: true,
        reset_delay: choose(4) as u32,
        ..Default::default()
    });
    let bar_ranges: Vec<(u64, u64)> = (0..6).filter_map(|i| f.mem_bar(i)).filter(|(a, _)| *a != 0).collect();
    let cfg_snapshot = (f.command, f.bar_regs);
    with(|w| {
        w.ensure_queues(nq, 256);
        w.tr.device_type = 2;
        w.tr.has_config = chosen.device.is_some();
        w.tr.config = (0..chosen.device.as_ref().map(|d| d.length.min(65536)).unwrap_or(0)).map(|i| i as u8 ^ 0x5a).collect();
        let p = w.bus.pci.get_or_insert_with(Default::default);
        p.funcs.insert(VIRTIO_DF, f);
        p.virtio_df = Some(VIRTIO_DF);
        p.log = Some(Vec::new());
    });
    // ---- construct
    let via = choose(3);
    let r = crate::runner::guarded(|| match via {
        0 => PciTransport::new::<SimHal, _>(&mut PciRoot::new(SimCam), virtio_df()),
        1 => PciTransport::new::<SimHal, _>(&mut PciRoot::new(mmio_cam(false)), virtio_df()),
        _ => PciTransport::new::<SimHal, _>(&mut PciRoot::new(mmio_cam(true)), virtio_df()),
    });
    let (log, maps, after) = with(|w| {
        let p = w.bus.pci.as_mut().unwrap();
        (p.log.take().unwrap_or_default(), w.hal.mmio_maps.clone(), (p.funcs[&VIRTIO_DF].command, p.funcs[&VIRTIO_DF].bar_regs))
    });
    // configuration writes only to the command register and the BARs, and everything restored
    for a in &log {
        if a.write && !(a.reg == 0x04 || (0x10..0x28).contains(&a.reg)) {
            violation("pci-config-write-outside-bars", "new", format!("construction wrote {:#x} to configuration register {:#x}, which is neither the command register nor a BAR", a.value, a.reg));
            break;
        }
    }
    if after != cfg_snapshot {
        violation("pci-config-not-restored", "new", format!("command/BAR registers before construction {cfg_snapshot:x?}, after {after:x?}"));
    }
    for (pa, sz) in &maps {
        if upper_half_involved {
            break;
        }
        if !bar_ranges.iter().any(|(a, s)| (*pa as u128) >= *a as u128 && (*pa as u128 + *sz as u128) <= (*a as u128 + *s as u128)) {
            violation("pci-map-outside-bar", "new", format!("mmio_phys_to_virt({pa:#x}, {sz:#x}) is not inside an allocated memory BAR of the function ({bar_ranges:x?})"));
        }
    }
    if reserved_bar_involved && verdict == Verdict::Invalid {
        fault("cap_bar_reserved");
    }
    let t = match r {
        Err((msg, loc)) => {
            return violation("pci-construction-panic", "new", format!("PciTransport::new panicked ({msg} at {loc}); the statement allows an error or a transport, nothing else"));
        }
        Ok(Err(e)) => {
            if verdict == Verdict::Valid {
                violation("pci-valid-device-rejected", "new", format!("a well-formed function was rejected: {e:?}"));
            }
            oplog(|| format!("PciTransport::new -> Err({e:?})"));
            return;
        }
        Ok(Ok(t)) => {
            if verdict == Verdict::Invalid && upper_half_involved {
                violation(
                    "pci-window-in-upper-half-of-64bit-bar",
                    "new",
                    format!("a capability names BAR index that is the upper half of a 64-bit BAR; PciTransport::new sized that register as a BAR of its own and accepted a window in it: common {:x?} notify {:x?} isr {:x?} device {:x?}", chosen.common, chosen.notify, chosen.isr, chosen.device),
                );
            } else if verdict == Verdict::Invalid {
                violation(
                    "pci-invalid-window-accepted",
                    "new",
                    format!("PciTransport::new succeeded although a chosen capability window is not contained in an allocated memory BAR / too small / misaligned: common {:x?} notify {:x?} isr {:x?} device {:x?}", chosen.common, chosen.notify, chosen.isr, chosen.device),
                );
                verdict = Verdict::Invalid;
            }
            t
        }
    };
    if verdict == Verdict::Invalid {
        std::mem::forget(t);
        return;
    }
    nontrivial();
    // windows must be pairwise disjoint for the operations phase to be unambiguous
    let mut wins: Vec<(u128, u128)> = Vec::new();
    let fclone = with(|w| w.bus.pci.as_ref().unwrap().funcs[&VIRTIO_DF].clone());
    for c in [&chosen.common, &chosen.notify, &chosen.isr, &chosen.device].into_iter().flatten() {
        let (a, _) = fclone.mem_bar(c.bar as usize).unwrap();
        wins.push((a as u128 + c.offset as u128, a as u128 + c.offset as u128 + c.length as u128));
    }
    let disjoint = (0..wins.len()).all(|i| (i + 1..wins.len()).all(|j| wins[i].1 <= wins[j].0 || wins[j].1 <= wins[i].0));
    if !disjoint {
        std::mem::forget(t);
        return;
    }
    let cfg_window_exact = chosen.device.as_ref().is_none_or(|d| d.length <= 65536);
    ops(t, mult, notify_len, nq, cfg_window_exact);
}

fn ops(mut t: PciTransport, mult: u32, notify_len: u32, nq: usize, cfg_window_exact: bool) {
    let n_ops = 4 + choose(30);
    for _ in 0..n_ops {
        if violated() {
            break;
        }
        let q = choose(nq as u64) as u16;
        match choose(11) {
            0 => {
                let f = choose(u64::MAX);
                with(|w| w.tr.device_features = f);
                let got = t.read_device_features();
                if got != f {
                    violation("pci-value", "read_device_features", format!("device offers {f:#x}, transport returned {got:#x}"));
                }
            }
            1 => {
                let f = choose(u64::MAX);
                t.write_driver_features(f);
                let got = with(|w| w.tr.driver_features);
                if got != f {
                    violation("pci-value", "write_driver_features", format!("driver passed {f:#x}, device received {got:#x}"));
                }
            }
            2 => {
                // queue_size reads back what the driver wrote, the maximum before that
                let want = with(|w| {
                    let r = &w.tr.queues[q as usize];
                    if r.ready { r.size } else { r.max_size }
                });
                let got = t.max_queue_size(q);
                if got != want {
                    violation("pci-value", "max_queue_size", format!("{got} vs {want}"));
                }
            }
            3 | 4 => {
                if with(|w| w.tr.queues[q as usize].ready) {
                    continue;
                }
                let size = 1u32 << choose(9);
                let mk = || ((1 + choose(0xfff)) << 32) | (choose(0x10_0000) << 12);
                let (d, dr, de) = (mk(), mk() | 0x800, mk() | 0x400);
                t.queue_set(q, size, d, dr, de);
                oplog(|| format!("queue_set(q{q}, {size}, {d:#x}, {dr:#x}, {de:#x})"));
                let r = with(|w| w.tr.queues[q as usize].clone());
                if !(r.ready && r.size == size && r.desc == d && r.driver == dr && r.device == de) {
                    violation("pci-value", "queue_set", format!("device registered {r:x?}"));
                }
                if !t.queue_used(q) {
                    violation("pci-value", "queue_used", "queue_used false right after queue_set".into());
                }
            }
            5 => {
                // notifying is only meaningful if the queue's notify address lies in the window
                let off = with(|w| w.bus.pci.as_ref().unwrap().funcs[&VIRTIO_DF].virtio.as_ref().unwrap().queue_notify_off[q as usize]);
                if (off as u64 * mult as u64) + 2 <= notify_len as u64 {
                    // the same queue is often notified several times in a row
                    let times = 1 + choose(3);
                    for _ in 0..times {
                        let before = with(|w| w.tr.notifies);
                        t.notify(q);
                        oplog(|| format!("notify({q}) at notify offset {off} x multiplier {mult}"));
                        if with(|w| w.tr.notifies) != before + 1 && !violated() {
                            violation("pci-value", "notify", "no notification reached the device".into());
                        }
                    }
                }
            }
            6 => {
                let isr = choose(4) as u32;
                with(|w| w.tr.isr = isr);
                let got = t.ack_interrupt();
                if got.bits() != isr || with(|w| w.tr.isr) != 0 {
                    violation("pci-value", "ack_interrupt", format!("ISR {isr:#x}: returned {:#x}", got.bits()));
                }
            }
            7 => {
                let s = [1u32, 3, 11, 0][choose(4) as usize];
                t.set_status(DeviceStatus::from_bits_retain(s));
                if s == 0 {
                    // reset: the device may take a few reads to report completion; afterwards
                    // every queue is disabled and queue_select is back at 0
                    let mut n = 0;
                    while t.get_status().bits() != 0 && n < 16 {
                        n += 1;
                    }
                    oplog(|| format!("reset (status 0 after {n} extra reads)"));
                    if n == 16 {
                        violation("pci-value", "status", "status never read 0 after a reset".into());
                    }
                } else if t.get_status().bits() != s {
                    violation("pci-value", "status", format!("wrote {s:#x}, read {:#x}", t.get_status().bits()));
                }
            }
            8 => {
                let g = choose(256) as u32;
                with(|w| w.tr.config_gen = g);
                if t.read_config_generation() != g {
                    violation("pci-value", "read_config_generation", "generation mismatch".into());
                }
            }
            9 => {
                // accesses at the end of the device-configuration window: inside -> must succeed
                // (the transport may only rely on whole words), outside -> must fail and touch nothing
                let clen = with(|w| if w.tr.has_config { w.tr.config.len() } else { 0 });
                if clen >= 4 && cfg_window_exact {
                    let off = (clen / 4 * 4).saturating_sub(4 * choose(2) as usize);
                    let before = with(|w| w.bus.accesses);
                    let r = t.read_config_space::<u32>(off);
                    let inside_words = off + 4 <= clen / 4 * 4;
                    let inside_real = off + 4 <= clen;
                    if inside_words && r.is_err() {
                        violation("pci-value", "read_config_space", format!("read of 4 bytes at {off} inside a {clen}-byte window failed: {r:?}"));
                    }
                    if !inside_real && (r.is_ok() || with(|w| w.bus.accesses) != before) {
                        violation("config-access-outside-window", "read_config_space", format!("read of 4 bytes at offset {off} of a {clen}-byte device-configuration window returned {r:?} / performed accesses"));
                    }
                }
            }
            _ => {
                let clen = with(|w| if w.tr.has_config { w.tr.config.len() } else { 0 });
                if clen >= 8 {
                    let off = (choose(clen as u64 / 4 - 1) * 4) as usize;
                    let want = with(|w| u32::from_le_bytes(w.tr.config[off..off + 4].try_into().unwrap()));
                    if t.read_config_space::<u32>(off) != Ok(want) {
                        violation("pci-value", "read_config_space", format!("config[{off}]"));
                    }
                }
            }
        }
    }
    // drop: reset and wait for the (possibly late) completion
    // whatever the status is at that moment, including a failed device that asked for a reset
    let st = [3u32, 0x0f, 0x8f, 0xcf, 0x4f, 0xff, 0x80, 0][choose(8) as usize];
    with(|w| w.tr.status = st);
    oplog(|| format!("drop with device status {st:#x}"));
    drop(t);
    let (status, polls, pending) = with(|w| {
        let v = w.bus.pci.as_ref().unwrap().funcs[&VIRTIO_DF].virtio.as_ref().unwrap();
        (w.tr.status, v.reset_polls, v.reset_pending)
    });
    if status != 0 || pending.is_some() {
        violation("pci-reset-on-drop", "drop", format!("after drop: device status {status:#x}, reset still pending: {pending:?} (polled {polls} times)"));
    }
}
