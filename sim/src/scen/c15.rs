//! C15: console bytes delivered exactly once, in order, both directions.

use crate::devices::console::ConsoleDev;
use crate::world::*;
use crate::zoo::{self, Console, Kind, TKind, TransportFn};
use embedded_io::{BufRead, Read, ReadReady, Write};
use virtio_drivers::transport::Transport;

fn stream_byte(i: usize) -> u8 {
    // position-identifying (period 251 * 256 > any window we look at)
    ((i % 251) as u8).wrapping_mul(7).wrapping_add((i / 251) as u8)
}

struct Run {
    size_offered: bool,
    emerg_offered: bool,
}

fn posted_rx(w: &World) -> usize {
    w.avail_idx_mem(0).unwrap_or(0).wrapping_sub(w.dq[0].used_idx) as usize
}

impl TransportFn<()> for Run {
    fn call<T: Transport + 'static>(self, t: T) {
        let mut con = match Console::<T>::new(t) {
            Ok(c) => c,
            Err(e) => {
                violation("console-new-failed", "new", format!("{e:?}"));
                return;
            }
        };
        let mut produced = 0usize; // bytes handed to the device for delivery
        let mut returned = 0usize; // bytes the caller consumed
        let mut tx_expect: Vec<Vec<u8>> = Vec::new();
        let n_ops = 10 + choose(150);
        let check_stream = |what: &str, got: &[u8], at: usize| {
            for (k, b) in got.iter().enumerate() {
                if *b != stream_byte(at + k) {
                    violation(
                        "console-stream",
                        what,
                        format!("{what}: byte {} of the receive stream is {:#x}, the device wrote {:#x} at that position (bytes lost, duplicated or reordered)", at + k, b, stream_byte(at + k)),
                    );
                    return;
                }
            }
        };
        for _ in 0..n_ops {
            if violated() {
                break;
            }
            let before = returned;
            with(|w| w.personality::<ConsoleDev>().publish_marks.clear());
            let k = choose(15);
            let (delivered, undelivered) = with(|w| {
                let d = w.personality::<ConsoleDev>();
                (d.written.len(), d.undelivered())
            });
            let can_block = delivered > returned || undelivered > 0;
            match k {
                0 | 1 => {
                    // the device gets more input to deliver
                    let n = match choose(4) {
                        0 => 1,
                        1 => 1 + choose(16),
                        2 => 1 + choose(300),
                        _ => 1 + choose(4096),
                    } as usize;
                    let chunk: Vec<u8> = (0..n).map(|i| stream_byte(produced + i)).collect();
                    produced += n;
                    oplog(|| format!("device receives {n} byte(s) to deliver"));
                    with(|w| w.personality::<ConsoleDev>().input.push_back(chunk));
                    let steps = choose(3);
                    with(|w| {
                        w.run_device(steps);
                    });
                }
                2 => {
                    let r = con.recv(false);
                    oplog(|| format!("recv(peek) -> {r:?}"));
                    match r {
                        Ok(Some(b)) => check_stream("recv(false)", &[b], returned),
                        Ok(None) => {}
                        Err(e) => violation("console-error", "recv", format!("{e:?}")),
                    }
                }
                3 | 4 => {
                    let r = con.recv(true);
                    oplog(|| format!("recv(pop) -> {r:?}"));
                    match r {
                        Ok(Some(b)) => {
                            check_stream("recv(true)", &[b], returned);
                            returned += 1;
                        }
                        Ok(None) => {}
                        Err(e) => violation("console-error", "recv", format!("{e:?}")),
                    }
                }
                5 | 6 if can_block => {
                    let n = 1 + choose(if flip(1, 2) { 8 } else { 5000 }) as usize;
                    let mut buf = vec![0u8; n];
                    let r = Read::read(&mut con, &mut buf);
                    oplog(|| format!("read({n}) -> {r:?}"));
                    match r {
                        Ok(m) => {
                            if m == 0 || m > n {
                                violation("console-read-len", "read", format!("read into {n} bytes returned {m}"));
                            }
                            check_stream("read", &buf[..m.min(n)], returned);
                            returned += m;
                            nontrivial();
                        }
                        Err(e) => violation("console-error", "read", format!("{e:?}")),
                    }
                }
                7 | 8 if can_block => {
                    let r = BufRead::fill_buf(&mut con).map(|b| b.to_vec());
                    match r {
                        Ok(b) => {
                            if b.is_empty() {
                                violation("console-fill-buf", "fill_buf", "fill_buf returned an empty slice".into());
                            }
                            check_stream("fill_buf", &b, returned);
                            let k = choose(b.len() as u64 + 1) as usize;
                            BufRead::consume(&mut con, k);
                            oplog(|| format!("fill_buf -> {} bytes, consume({k})", b.len()));
                            returned += k;
                        }
                        Err(e) => violation("console-error", "fill_buf", format!("{e:?}")),
                    }
                }
                13 => {
                    // consuming nothing is always allowed, whatever is or is not buffered
                    BufRead::consume(&mut con, 0);
                    oplog(|| "consume(0)".to_string());
                }
                9 => {
                    let r = ReadReady::read_ready(&mut con);
                    oplog(|| format!("read_ready -> {r:?}"));
                    if let Ok(true) = r {
                        // then a peek must succeed with the right byte
                        match con.recv(false) {
                            Ok(Some(b)) => check_stream("read_ready+peek", &[b], returned),
                            other => violation("console-read-ready", "read_ready", format!("read_ready said true but recv(false) returned {other:?}")),
                        }
                    }
                }
                10 => {
                    let r = con.ack_interrupt();
                    oplog(|| format!("ack_interrupt -> {r:?}"));
                    if let Err(e) = r {
                        violation("console-error", "ack_interrupt", format!("{e:?}"));
                    }
                }
                11 | 12 => {
                    let n = match choose(6) {
                        0 => [4095usize, 4096, 4097, 5000, 8192, 12411][choose(6) as usize],
                        1 | 2 => 1 + choose(4) as usize,
                        _ => 1 + choose(600) as usize,
                    };
                    let data: Vec<u8> = (0..n).map(|i| (i as u8).wrapping_mul(13).wrapping_add(tx_expect.len() as u8)).collect();
                    let r = match choose(4) {
                        0 if n == 1 => con.send(data[0]),
                        1 => Write::write(&mut con, &data).map(|m| {
                            if m != n {
                                violation("console-write-len", "write", format!("write of {n} bytes returned {m}"));
                            }
                        }),
                        2 => {
                            let s: String = data.iter().map(|b| (b'a' + b % 26) as char).collect();
                            let r = core::fmt::Write::write_str(&mut con, &s).map_err(|_| virtio_drivers::Error::IoError);
                            tx_expect.push(s.into_bytes());
                            oplog(|| format!("write_str({n} bytes) -> {r:?}"));
                            if r.is_err() {
                                violation("console-error", "write_str", "write_str failed".into());
                            }
                            continue;
                        }
                        _ => con.send_bytes(&data),
                    };
                    oplog(|| format!("send {n} byte(s) -> {r:?}"));
                    if let Err(e) = r {
                        violation("console-error", "send", format!("{e:?}"));
                    }
                    tx_expect.push(data);
                }
                _ => {
                    if self.size_offered {
                        match con.size() {
                            Ok(Some(s)) => {
                                if (s.columns, s.rows) != (80, 25) {
                                    violation("console-size", "size", format!("{s:?}"));
                                }
                            }
                            other => violation("console-size", "size", format!("SIZE negotiated but size() = {other:?}")),
                        }
                    } else if con.size() != Ok(None) {
                        violation("console-size", "size", "size() returned a value although SIZE was not negotiated".into());
                    }
                    let r = con.emergency_write(b'!');
                    if r.is_ok() != self.emerg_offered {
                        violation("console-emergency-write", "emergency_write", format!("EMERG_WRITE offered {}, emergency_write -> {r:?}", self.emerg_offered));
                    }
                }
            }
            // invariants after every operation
            let (marks, written, rxp, txs) = with(|w| {
                let rxp = posted_rx(w);
                let d = w.personality::<ConsoleDev>();
                (d.publish_marks.clone(), d.written.len(), rxp, d.tx.clone())
            });
            if rxp > 1 {
                violation("console-rx-outstanding", "receiveq", format!("{rxp} receive buffers outstanding"));
            }
            for m in marks {
                if m > returned || m < before {
                    violation(
                        "console-repost-early",
                        "receiveq",
                        format!("receive buffer re-posted when the device had written {m} bytes, but the caller had consumed only {before}..{returned}"),
                    );
                }
            }
            if returned > written {
                violation("console-stream", "receiveq", format!("caller consumed {returned} bytes, device wrote only {written}"));
            }
            // "every send places exactly the caller's bytes on the transmit queue": the byte
            // stream is what counts; how many requests carry one send is the driver's business
            // (an empty send may produce an empty request or none)
            let flat = |v: &Vec<Vec<u8>>| v.iter().flatten().copied().collect::<Vec<u8>>();
            if txs != tx_expect && flat(&txs) != flat(&tx_expect) && !violated() {
                violation("console-tx", "transmitq", format!("transmit queue saw {} transmissions, caller sent {}; last seen {:x?}", txs.len(), tx_expect.len(), txs.last().map(|v| &v[..v.len().min(8)])));
            }
            op_point();
            with(|w| w.check_no_lost_wakeup("console"));
        }
        // drain: everything the device was given must come out, in order
        let mut guard = 0;
        while !violated() && returned < produced && guard < 20_000 {
            guard += 1;
            let mut buf = vec![0u8; 1 + choose(64) as usize];
            match Read::read(&mut con, &mut buf) {
                Ok(m) => {
                    check_stream("final read", &buf[..m], returned);
                    returned += m;
                }
                Err(e) => {
                    violation("console-error", "read", format!("{e:?}"));
                    break;
                }
            }
        }
        if !violated() && returned != produced {
            violation("console-stream", "drain", format!("device produced {produced} bytes, caller got {returned}"));
        }
        drop(con);
    }
}

pub fn run() {
    let tk = [TKind::Model, TKind::ModelLegacy, TKind::MmioModern, TKind::MmioLegacy, TKind::Pci, TKind::ModelPciLike][choose(6) as usize];
    crate::scen::queue::draw_device_policy();
    crate::scen::queue::draw_sharing_mode();
    let size_offered = flip(1, 2);
    let emerg_offered = flip(1, 2);
    let mut feats = F_VERSION_1 | F_INDIRECT * choose(2) | F_EVENT_IDX * choose(2) | F_ACCESS_PLATFORM * choose(2) | (size_offered as u64) | (emerg_offered as u64) << 2 | choose(2) << 1;
    if tk.legacy() {
        feats &= !F_VERSION_1;
    }
    zoo::setup_device(Kind::Console, feats, Kind::Console.default_config());
    with(|w| w.dev = Some(Box::new(ConsoleDev::new())));
    oplog(|| format!("console over {tk:?} features {feats:#x} policy {:?}", with(|w| (w.cfg.serve, w.cfg.suppress))));
    if let Err(e) = zoo::with_transport(tk, Run { size_offered, emerg_offered }) {
        violation("transport-construction-failed", "zoo", e);
    }
}
