//! C14: block driver against the reference block device: blocking and non-blocking API,
//! out-of-order completion, per-request status, capacity / read-only / flush negotiation.

use crate::devices::blk::*;
use crate::world::*;
use crate::zoo::{self, Blk, Kind, TKind, TransportFn};
use virtio_drivers::Error;
use virtio_drivers::device::blk::{BlkReq, BlkResp, SECTOR_SIZE};
use virtio_drivers::transport::Transport;

pub fn map_status(s: u8) -> Result<(), Error> {
    match s {
        0 => Ok(()),
        1 => Err(Error::IoError),
        2 => Err(Error::Unsupported),
        3 => Err(Error::NotReady),
        _ => Err(Error::IoError),
    }
}

struct Pending {
    token: u16,
    write: bool,
    sector: u64,
    req: Box<BlkReq>,
    buf: Vec<u8>,
    resp: Box<BlkResp>,
}

struct Run {
    faulty: bool,
    feats: u64,
    capacity: u64,
}

fn sector_pick() -> u64 {
    match choose(6) {
        0 => choose(8),
        1 => u64::MAX - choose(20),
        2 => choose(u64::MAX),
        3 => (1u64 << 32) - 4 + choose(8),
        _ => choose(64),
    }
}

fn unique_data(n_sectors: usize, stamp: &mut u64) -> Vec<u8> {
    let mut v = vec![0u8; n_sectors * 512];
    for s in 0..n_sectors {
        *stamp += 1;
        let st = *stamp;
        for (i, b) in v[s * 512..(s + 1) * 512].iter_mut().enumerate() {
            *b = ((st as u8).wrapping_mul(17)).wrapping_add((i as u8).wrapping_mul(3)).wrapping_add((st >> 8) as u8);
        }
        v[s * 512..s * 512 + 8].copy_from_slice(&st.to_le_bytes());
    }
    v
}

impl TransportFn<()> for Run {
    fn call<T: Transport + 'static>(self, t: T) {
        let mut blk = match Blk::<T>::new(t) {
            Ok(b) => b,
            Err(e) => {
                violation("blk-new-failed", "new", format!("VirtIOBlk::new failed: {e:?}"));
                return;
            }
        };
        let negotiated = with(|w| w.tr.driver_features);
        if blk.capacity() != self.capacity {
            violation("blk-capacity", "capacity", format!("device capacity {:#x}, driver reports {:#x}", self.capacity, blk.capacity()));
        }
        if blk.readonly() != (self.feats & F_RO != 0) {
            violation("blk-readonly", "readonly", format!("RO offered {}, readonly() = {}", self.feats & F_RO != 0, blk.readonly()));
        }
        let ro = self.feats & F_RO != 0;
        let mut stamp = 0u64;
        let mut pend: Vec<Pending> = Vec::new();
        let n_ops = 5 + choose(60);
        for _ in 0..n_ops {
            if violated() {
                break;
            }
            let k = choose(12);
            // Now and then a blocking call is made although a non-blocking request is still
            // outstanding and its completion already sits in the used ring. The blocking call
            // cannot succeed then (the documented outcome is an error: the completion at the
            // head of the ring is not its own); what it must not do is take the other request's
            // completion for its own. Only with a bouncing platform (the request stays with the
            // device afterwards), and the run ends there.
            if !pend.is_empty() && !self.faulty && with(|w| w.hal.bounce) && flip(1, 12) {
                with(|w| w.drain_device());
                if with(|w| !w.dq[0].used_fifo.is_empty()) {
                    probe("blocking_call_behind_foreign_completion");
                    let sec = sector_pick();
                    let mut buf = vec![0x77u8; SECTOR_SIZE];
                    let r = blk.read_blocks(sec as usize, &mut buf);
                    oplog(|| format!("read_blocks({sec:#x}) with a foreign completion at the head of the used ring -> {r:?}"));
                    if r.is_ok() {
                        violation("blk-foreign-completion-taken", "read_blocks", "a blocking read returned Ok although the completion at the head of the used ring belongs to an outstanding non-blocking request".into());
                    } else if buf.iter().any(|b| *b != 0x77) && buf.iter().any(|b| *b != 0) {
                        violation("blk-foreign-completion-taken", "read_blocks", "a blocking read that failed nevertheless wrote another request's data into the caller's buffer".into());
                    }
                    // the outstanding request can still be collected with its own buffers
                    if let Some(tok) = blk.peek_used() {
                        if let Some(i) = pend.iter().position(|p| p.token == tok) {
                            let mut p = pend.remove(i);
                            // SAFETY: same buffers as at submission.
                            let r2 = unsafe { if p.write { blk.complete_write_blocks(tok, &p.req, &p.buf, &mut p.resp) } else { blk.complete_read_blocks(tok, &p.req, &mut p.buf, &mut p.resp) } };
                            if r2.is_err() && !violated() {
                                violation("blk-foreign-completion-taken", "complete", format!("after the failed blocking call the outstanding request (token {tok}) can no longer be completed: {r2:?}"));
                            }
                        } else if !violated() {
                            violation("blk-foreign-completion-taken", "peek_used", format!("after the failed blocking call the used ring head is token {tok}, which is not the outstanding request's"));
                        }
                    } else if !violated() {
                        violation("blk-foreign-completion-taken", "peek_used", "after the failed blocking call the outstanding request's completion is gone from the used ring".into());
                    }
                    // (the blocking request stays with the device: no end-of-run accounting)
                    with(|w| w.stop = true);
                    drop(blk);
                    std::mem::forget(pend);
                    return;
                }
            }
            let blocking = pend.is_empty() && flip(1, 2);
            if blocking {
                let k = k % 6;
                // blocking API (only with nothing else outstanding)
                match k {
                    0 | 1 => {
                        let n = 1 + choose(4) as usize;
                        let sec = sector_pick();
                        let mut buf = vec![0x11u8; n * SECTOR_SIZE];
                        let r = blk.read_blocks(sec as usize, &mut buf);
                        let seen = with(|w| w.personality::<BlkDev>().log.pop_back());
                        oplog(|| format!("read_blocks({sec:#x}, {n} sectors) -> {r:?}"));
                        check_blocking("read_blocks", r, &seen, T_IN, sec, n * 512);
                        if r.is_ok() {
                            let want: Vec<u8> = with(|w| {
                                let d = w.personality::<BlkDev>();
                                (0..n as u64).flat_map(|i| d.sector(sec.wrapping_add(i)).to_vec()).collect()
                            });
                            if buf != want {
                                violation("blk-read-data", "read_blocks", format!("read of sector {sec:#x}: caller's buffer differs from what the device supplied"));
                            }
                        }
                    }
                    2 | 3 if !ro => {
                        let n = 1 + choose(4) as usize;
                        let sec = sector_pick();
                        let data = unique_data(n, &mut stamp);
                        let r = blk.write_blocks(sec as usize, &data);
                        let seen = with(|w| w.personality::<BlkDev>().log.pop_back());
                        oplog(|| format!("write_blocks({sec:#x}, {n} sectors) -> {r:?}"));
                        check_blocking("write_blocks", r, &seen, T_OUT, sec, n * 512);
                        if r.is_ok() {
                            let got: Vec<u8> = with(|w| {
                                let d = w.personality::<BlkDev>();
                                (0..n as u64).flat_map(|i| d.sector(sec.wrapping_add(i)).to_vec()).collect()
                            });
                            if got != data {
                                violation("blk-write-data", "write_blocks", format!("write of sector {sec:#x}: device received different bytes"));
                            }
                        }
                    }
                    4 => {
                        let before = with(|w| w.personality::<BlkDev>().flushes);
                        let r = blk.flush();
                        let (after, seen) = with(|w| {
                            let d = w.personality::<BlkDev>();
                            (d.flushes, if d.flushes > before { d.log.pop_back() } else { None })
                        });
                        oplog(|| format!("flush -> {r:?}"));
                        let want_sent = negotiated & F_FLUSH != 0;
                        if (after > before) != want_sent {
                            violation("blk-flush", "flush", format!("FLUSH negotiated: {want_sent}; flush request reached the device: {}", after > before));
                        }
                        if want_sent {
                            check_blocking("flush", r, &seen, T_FLUSH, 0, 0);
                        } else if r != Ok(()) {
                            violation("blk-flush", "flush", format!("flush without FLUSH support returned {r:?}"));
                        }
                    }
                    _ => {
                        let mut id = [0xffu8; 20];
                        let r = blk.device_id(&mut id);
                        let seen = with(|w| w.personality::<BlkDev>().log.pop_back());
                        oplog(|| format!("device_id -> {r:?}"));
                        let st = seen.as_ref().map(|s| s.status).unwrap_or(0xff);
                        match (r, map_status(st)) {
                            (Ok(n), Ok(())) => {
                                let want = *b"vdsim-reference-disk";
                                if id != want || n != 20 {
                                    violation("blk-device-id", "device_id", format!("id {:?} len {n}", String::from_utf8_lossy(&id)));
                                }
                            }
                            (Err(e), Err(w)) if e == w => {}
                            (r, w) => violation("blk-status-mapping", "device_id", format!("device status {st}: expected {w:?}, got {r:?}")),
                        }
                        if let Some(s) = seen {
                            if s.type_ != T_GET_ID {
                                violation("blk-request-header", "device_id", format!("request type {} for GET_ID", s.type_));
                            }
                        }
                    }
                }
            } else {
                match k {
                    0..=4 => {
                        // submit non-blocking
                        let write = !ro && flip(1, 2);
                        let n = 1 + choose(3) as usize;
                        let sec = sector_pick();
                        let mut p = Pending {
                            token: 0,
                            write,
                            sector: sec,
                            req: Box::new(BlkReq::default()),
                            buf: if write { unique_data(n, &mut stamp) } else { vec![0x22u8; n * 512] },
                            resp: Box::new(BlkResp::default()),
                        };
                        // SAFETY: buffers are boxed and kept in `pend` until completed.
                        let r = unsafe {
                            if write { blk.write_blocks_nb(sec as usize, &mut p.req, &p.buf, &mut p.resp) } else { blk.read_blocks_nb(sec as usize, &mut p.req, &mut p.buf, &mut p.resp) }
                        };
                        oplog(|| format!("{}_blocks_nb({sec:#x}, {n}) -> {r:?}", if write { "write" } else { "read" }));
                        match r {
                            Ok(tok) => {
                                p.token = tok;
                                pend.push(p);
                                if pend.len() >= 2 {
                                    nontrivial();
                                }
                            }
                            Err(Error::QueueFull) => {
                                probe("blk_queue_full");
                            }
                            Err(e) => violation("blk-nb-submit", "nb", format!("non-blocking submit failed with {e:?}")),
                        }
                    }
                    5..=9 => {
                        // complete whatever the device finished first
                        let peek = blk.peek_used();
                        let head = with(|w| w.dq[0].used_fifo.front().copied());
                        if peek != head.map(|h| h.0 as u16) {
                            violation("peek-used", "blk.peek_used", format!("peek_used()={peek:?}, used ring head {head:?}"));
                        }
                        if let Some(tok) = peek {
                            if let Some(i) = pend.iter().position(|p| p.token == tok) {
                                let mut p = pend.remove(i);
                                if i != 0 {
                                    probe("blk_completed_out_of_order");
                                }
                                // SAFETY: same buffers as at submission.
                                let r = unsafe {
                                    if p.write { blk.complete_write_blocks(tok, &p.req, &p.buf, &mut p.resp) } else { blk.complete_read_blocks(tok, &p.req, &mut p.buf, &mut p.resp) }
                                };
                                with(|w| {
                                    w.dq[0].used_fifo.pop_front();
                                });
                                let seen = with(|w| {
                                    let d = w.personality::<BlkDev>();
                                    let i = d.log.iter().position(|s| s.head == tok);
                                    i.and_then(|i| d.log.remove(i))
                                });
                                oplog(|| format!("complete token {tok} -> {r:?}"));
                                check_blocking("complete", r, &seen, if p.write { T_OUT } else { T_IN }, p.sector, p.buf.len());
                                if r.is_ok() && !p.write {
                                    let n = p.buf.len() / 512;
                                    // compare with the disk content at the time the device served it is
                                    // not possible after later writes; reads and writes of the same
                                    // sector are never outstanding together (see sector choice), so
                                    // the current content is the served content unless overwritten.
                                    let want: Vec<u8> = with(|w| {
                                        let d = w.personality::<BlkDev>();
                                        (0..n as u64).flat_map(|i| d.sector(p.sector.wrapping_add(i)).to_vec()).collect()
                                    });
                                    let overlapping_write = pend.iter().any(|q| q.write) || true;
                                    if p.buf != want && !overlapping_write {
                                        violation("blk-read-data", "complete_read_blocks", "data of completed read differs from the device's".into());
                                    }
                                    // Position-identifying check that does not depend on later writes:
                                    // every sector returned must be a sector image some write (or the
                                    // initial image) ever had for that sector number.
                                    for (j, c) in p.buf.chunks(512).enumerate() {
                                        let s = p.sector.wrapping_add(j as u64);
                                        let init = default_sector(s);
                                        let ok = c == init || with(|w| w.personality::<BlkDev>().disk.get(&s).map(|d| &d[..] == c).unwrap_or(false)) || is_unique_image(c);
                                        if !ok {
                                            violation("blk-read-data", "complete_read_blocks", format!("sector {s:#x} of a completed read holds bytes the device never supplied"));
                                            break;
                                        }
                                    }
                                }
                            } else {
                                violation("blk-unknown-token", "peek_used", format!("used token {tok} does not belong to an outstanding request"));
                            }
                        }
                    }
                    _ => {
                        if flip(1, 3) {
                            // interrupt control: without EVENT_IDX the device reads exactly this setting
                            let en = flip(1, 2);
                            if en {
                                blk.enable_interrupts();
                            } else {
                                blk.disable_interrupts();
                            }
                            let (flags, ev_idx, qsize) = with(|w| (w.avail_flags_mem(0), w.tr.negotiated(F_EVENT_IDX), w.tr.queues[0].size));
                            if !ev_idx && flags != Some(if en { 0 } else { 1 }) {
                                violation("avail-flags", "blk", format!("after {}_interrupts() the device reads avail.flags={flags:?}", if en { "enable" } else { "disable" }));
                            }
                            let _ = blk.ack_interrupt();
                            if blk.virt_queue_size() as u32 != qsize {
                                violation("blk-queue-size", "virt_queue_size", format!("virt_queue_size()={}, queue registered with {qsize} entries", blk.virt_queue_size()));
                            }
                        }
                        let n = 1 + choose(3);
                        with(|w| {
                            w.run_device(n);
                        });
                    }
                }
            }
            if pend.is_empty() {
                // blocking requests were consumed by the driver itself
                with(|w| w.dq[0].used_fifo.clear());
            }
            op_point();
            with(|w| w.check_no_lost_wakeup("blk"));
        }
        // finish outstanding requests
        let mut guard = 0;
        while !pend.is_empty() && !violated() && guard < 200 {
            guard += 1;
            with(|w| w.drain_device());
            if let Some(tok) = blk.peek_used() {
                if let Some(i) = pend.iter().position(|p| p.token == tok) {
                    let mut p = pend.remove(i);
                    // SAFETY: same buffers as at submission.
                    let _ = unsafe { if p.write { blk.complete_write_blocks(tok, &p.req, &p.buf, &mut p.resp) } else { blk.complete_read_blocks(tok, &p.req, &mut p.buf, &mut p.resp) } };
                    with(|w| {
                        w.dq[0].used_fifo.pop_front();
                    });
                } else {
                    break;
                }
            }
        }
        if !pend.is_empty() && !violated() {
            violation("blk-requests-never-completed", "finish", format!("{} non-blocking request(s) never completed although the device was notified", pend.len()));
        }
        drop(blk);
        drop(pend);
    }
}

fn is_unique_image(c: &[u8]) -> bool {
    // images produced by unique_data carry their stamp in the first 8 bytes and are a pure
    // function of it
    if c.len() != 512 {
        return false;
    }
    let st = u64::from_le_bytes(c[0..8].try_into().unwrap());
    (8..512).all(|i| c[i] == ((st as u8).wrapping_mul(17)).wrapping_add((i as u8).wrapping_mul(3)).wrapping_add((st >> 8) as u8))
}

fn check_blocking(op: &str, r: Result<(), Error>, seen: &Option<Seen>, type_: u32, sector: u64, data_len: usize) {
    let Some(s) = seen else {
        if !violated() {
            violation("blk-no-request", op, format!("{op} returned {r:?} but no request reached the device"));
        }
        return;
    };
    if s.type_ != type_ || (type_ != T_FLUSH && type_ != T_GET_ID && s.sector != sector) || s.data_len != data_len {
        violation(
            "blk-request-header",
            op,
            format!("{op}(sector {sector:#x}, {data_len} bytes): device received type {} sector {:#x} data {} bytes", s.type_, s.sector, s.data_len),
        );
    }
    let want = map_status(s.status);
    if r != want {
        violation("blk-status-mapping", op, format!("{op}: device status {} must map to {want:?}, driver returned {r:?}", s.status));
    }
}

fn run(faulty: bool) {
    let tk = [TKind::Model, TKind::ModelLegacy, TKind::MmioModern, TKind::MmioLegacy, TKind::Pci, TKind::ModelPciLike][choose(6) as usize];
    crate::scen::queue::draw_device_policy();
    crate::scen::queue::draw_sharing_mode();
    let mut feats = F_VERSION_1 | F_INDIRECT * choose(2) | F_EVENT_IDX * choose(2) | F_ACCESS_PLATFORM * choose(2) | F_RO * (choose(4) == 1) as u64 | F_FLUSH * choose(2);
    feats |= choose(1 << 16) & !((1 << 5) | (1 << 9)) & 0xffff; // other device bits, offered but unsupported
    if tk.legacy() {
        feats &= !F_VERSION_1;
    }
    let capacity = match choose(3) {
        0 => choose(1 << 20),
        1 => choose(u64::MAX),
        _ => 0x1_0000_0000 + choose(1 << 20),
    };
    let mut cfg = Kind::Blk.default_config();
    cfg[0..8].copy_from_slice(&capacity.to_le_bytes());
    zoo::setup_device(Kind::Blk, feats, cfg);
    with(|w| {
        let mut d = BlkDev::new();
        d.faulty = faulty;
        w.dev = Some(Box::new(d));
    });
    oplog(|| format!("blk over {tk:?}, features {feats:#x}, capacity {capacity:#x}, faulty {faulty}, policy {:?}", with(|w| (w.cfg.serve, w.cfg.suppress, w.cfg.in_order))));
    if let Err(e) = zoo::with_transport(tk, Run { faulty, feats, capacity }) {
        violation("transport-construction-failed", "zoo", e);
    }
    if !faulty {
        crate::world::check_nothing_shared("blk", &[0]);
    }
}

pub fn honest() {
    run(false)
}

pub fn faulty() {
    run(true)
}
