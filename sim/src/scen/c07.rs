//! C07: a misbehaving device cannot corrupt driver state or cause invalid memory access.
//! (1) hostile completions / responses / configuration against the bare queue, OwningQueue and
//!     every driver; the oracle is: every call ends in Ok, Err or a clean panic, the platform
//!     ledger never sees an unshare / dealloc without a live matching entry (or a second one), no
//!     slice handed to the caller exceeds its backing buffer;
//! (2) scribbling: the ordinary scenarios with their full functional oracles, while the device
//!     overwrites the descriptor table and available ring (see props.rs: *_scribbled batches);
//! (3) the same batches under the ASan engine (thorough tier, engines/C07.sh).

use crate::devices::events::EventSource;
use crate::hal::SimHal;
use crate::mtransport::ModelTransport;
use crate::runner::guarded;
use crate::scen::queue::{QCfg, draw_device_policy, draw_qcfg, setup_bare};
use crate::world::*;
use crate::zoo::{self, AnyDriver, KINDS, Kind, NET_BUF, TKINDS, TransportFn};
use embedded_io::{BufRead, Read};
use virtio_drivers::Result;
use virtio_drivers::queue::{OwningQueue, VirtQueue};
use virtio_drivers::transport::Transport;

/// Device that answers every chain with random bytes and (through the hostile core) wrong ids,
/// lengths and index jumps.
pub struct HostileDev {
    /// budget for completing driver-stocked (purely device-writable) buffers
    pub budget: u64,
}

impl Personality for HostileDev {
    fn completable(&self, _q: u16, c: &Chain) -> bool {
        c.readable_len() != 0 || self.budget > 0
    }
    fn complete(&mut self, _q: u16, chain: &Chain, ctx: &mut DevCtx) -> u32 {
        if chain.readable_len() == 0 {
            self.budget = self.budget.saturating_sub(1);
        }
        let wl = chain.writable_len();
        let n = ctx.tape.choose(wl as u64 + 1) as usize;
        let style = ctx.tape.choose(4);
        let data: Vec<u8> = (0..n)
            .map(|i| match style {
                0 => 0,
                1 => 0xff,
                2 => (i as u8).wrapping_mul(31),
                _ => ctx.tape.choose(256) as u8,
            })
            .collect();
        ctx.write_out(chain, &data);
        ctx.fault("response_garbage");
        n as u32
    }
    fn on_idle_spin(&mut self) -> bool {
        self.budget += 1;
        true
    }
    fn as_any(&mut self) -> &mut dyn std::any::Any {
        self
    }
}

fn hostile_world() {
    draw_device_policy();
    with(|w| {
        w.cfg.hostile = true;
        w.cfg.validate = false;
        // after a hostile completion the library may return with buffers still posted (they are
        // leaked, never unshared); the caller freeing them is not judged here
        w.cfg.heap_watch = false;
        w.dev = Some(Box::new(HostileDev { budget: 2 }));
    });
}

struct Sub {
    token: u16,
    ins: Vec<Box<[u8]>>,
    outs: Vec<Box<[u8]>>,
}

/// Bare queue with a well-behaved caller: it presents tokens it owns, with the buffers it
/// submitted under them. Like the library's own fixed token-to-buffer callers (`OwningQueue`, the
/// input driver) it may also present the token the used ring names when it does not own it at the
/// moment, with the buffers it last submitted under that token, which it keeps alive.
pub fn hostile_queue() {
    let c: QCfg = draw_qcfg(7);
    hostile_world();
    oplog(|| format!("hostile device vs bare queue {c:?}"));
    let (t, q) = setup_bare(&c);
    let Ok(q) = q else { return };
    struct Pair {
        t: ModelTransport,
        q: Box<dyn crate::scen::queue::QApi>,
    }
    let mut p = Pair { t, q };
    let mut out: Vec<Sub> = Vec::new();
    // buffers of completed submissions, by token (the most recent one per token)
    let mut retired: std::collections::BTreeMap<u16, Sub> = std::collections::BTreeMap::new();
    // Presenting a token that is not outstanding is only meaningful for a caller with a fixed
    // token-to-buffer mapping, which needs one descriptor per chain (otherwise the token may name
    // the middle of somebody else's chain and the caller's buffers cannot match): runs that
    // only submit single buffers (an indirect queue may still publish short chains directly).
    let one_desc_chains = flip(1, 3);
    for _ in 0..(10 + choose(120)) {
        if violated() {
            break;
        }
        match choose(6) {
            0 | 1 => {
                let n_in = choose(3) as usize;
                let n_out = if n_in == 0 { 1 + choose(2) as usize } else { choose(3) as usize };
                let (n_in, n_out) = if one_desc_chains { if n_in > 0 { (1, 0) } else { (0, 1) } } else { (n_in, n_out) };
                let ins: Vec<Box<[u8]>> = (0..n_in).map(|_| vec![0x11u8; 1 + choose(40) as usize].into_boxed_slice()).collect();
                let mut outs: Vec<Box<[u8]>> = (0..n_out).map(|_| vec![0x22u8; 1 + choose(40) as usize].into_boxed_slice()).collect();
                let r = guarded(|| {
                    let i2: Vec<&[u8]> = ins.iter().map(|b| &b[..]).collect();
                    let mut o2: Vec<&mut [u8]> = outs.iter_mut().map(|b| &mut b[..]).collect();
                    // SAFETY: buffers are boxed and kept in `out` (or leaked) below.
                    unsafe { p.q.add(&i2, &mut o2) }
                });
                match r {
                    Ok(Ok(token)) => {
                        oplog(|| format!("add -> token {token}"));
                        if out.iter().any(|s| s.token == token) {
                            // the queue handed out a token that is still outstanding: its state is
                            // corrupted
                            violation("hostile-state-corruption", "add", format!("add returned token {token}, which is still outstanding: the device's misbehaviour corrupted the descriptor free list"));
                        }
                        out.push(Sub { token, ins, outs });
                    }
                    Ok(Err(_)) => {}
                    Err((m, l)) => {
                        oplog(|| format!("add panicked: {m} at {l}"));
                        std::mem::forget((ins, outs));
                        break;
                    }
                }
                let _ = guarded(|| {
                    if p.q.should_notify() {
                        p.t.notify(c.qidx)
                    }
                });
            }
            2 => {
                with(|w| {
                    w.personality::<HostileDev>().budget += 2;
                    w.run_device(3);
                });
            }
            _ => {
                // consume: only a token the caller owns is presented
                let peek = match guarded(|| p.q.peek_used()) {
                    Ok(x) => x,
                    Err(_) => break,
                };
                let tok = match peek {
                    Some(t) if out.iter().any(|s| s.token == t) => t,
                    Some(t) if one_desc_chains && retired.contains_key(&t) && flip(1, 2) => {
                        // the used ring names a token that is not outstanding: presented with the
                        // buffers last submitted under it; must be refused without side effects
                        probe("stale_token_presented");
                        let r = guarded(|| {
                            let s = retired.get_mut(&t).unwrap();
                            let i2: Vec<&[u8]> = s.ins.iter().map(|b| &b[..]).collect();
                            let mut o2: Vec<&mut [u8]> = s.outs.iter_mut().map(|b| &mut b[..]).collect();
                            // SAFETY: the buffers submitted under this token, still alive.
                            unsafe { p.q.pop_used(t, &i2, &mut o2) }
                        });
                        match r {
                            Ok(Ok(len)) => violation("hostile-state-corruption", "pop_used", format!("pop_used({t}) returned Ok({len}) for a token that is not outstanding")),
                            Ok(Err(_)) => {}
                            Err((m, l)) => {
                                oplog(|| format!("pop_used({t}) (not outstanding) panicked: {m} at {l}"));
                                break;
                            }
                        }
                        continue;
                    }
                    _ => match out.first() {
                        Some(s) => s.token,
                        None => continue,
                    },
                };
                let i = out.iter().position(|s| s.token == tok).unwrap();
                let r = guarded(|| {
                    let s = &mut out[i];
                    let i2: Vec<&[u8]> = s.ins.iter().map(|b| &b[..]).collect();
                    let mut o2: Vec<&mut [u8]> = s.outs.iter_mut().map(|b| &mut b[..]).collect();
                    // SAFETY: same buffers as at submission.
                    unsafe { p.q.pop_used(tok, &i2, &mut o2) }
                });
                match r {
                    Ok(Ok(len)) => {
                        oplog(|| format!("pop_used({tok}) -> Ok({len})"));
                        let s = out.remove(i);
                        if let Some(old) = retired.insert(tok, s) {
                            // (kept alive: a hostile device may still name it)
                            std::mem::forget(old);
                        }
                        nontrivial();
                    }
                    Ok(Err(_)) => {}
                    Err((m, l)) => {
                        oplog(|| format!("pop_used({tok}) panicked: {m} at {l}"));
                        break;
                    }
                }
            }
        }
        op_point();
    }
    // buffers of chains the device may still reference are leaked rather than freed
    std::mem::forget(out);
    std::mem::forget(retired);
    let _ = guarded(move || drop(p));
}

type Handler<'a> = &'a mut dyn FnMut(&[u8]) -> Result<Option<usize>>;

trait Oq {
    fn poll(&mut self, t: &mut ModelTransport, h: Handler) -> Result<Option<usize>>;
}
impl<const S: usize, const B: usize> Oq for OwningQueue<SimHal, S, B> {
    fn poll(&mut self, t: &mut ModelTransport, h: Handler) -> Result<Option<usize>> {
        OwningQueue::poll(self, t, |b| h(b))
    }
}

pub fn hostile_owning() {
    hostile_world();
    let shape = choose(3);
    let (size, bufsz) = [(4usize, 16usize), (8, 64), (2, 512)][shape as usize];
    let q = choose(3) as u16;
    let (indirect, event_idx) = (flip(1, 2), flip(1, 2));
    with(|w| {
        w.ensure_queues(4, 32768);
        w.tr.driver_features = (if indirect { F_INDIRECT } else { 0 }) | (if event_idx { F_EVENT_IDX } else { 0 }) | F_VERSION_1;
        w.tr.status = ST_ACK | ST_DRIVER | ST_FEATURES_OK | ST_DRIVER_OK;
        w.dev = Some(Box::new(HostileDev { budget: 0 }));
    });
    oplog(|| format!("hostile device vs OwningQueue<{size},{bufsz}>"));
    struct Pair {
        t: ModelTransport,
        oq: Option<Box<dyn Oq>>,
    }
    let mut p = Pair { t: ModelTransport::new(), oq: None };
    let made: Result<Box<dyn Oq>> = (|| {
        Ok(match shape {
            0 => Box::new(OwningQueue::<SimHal, 4, 16>::new(VirtQueue::new(&mut p.t, q, indirect, event_idx, false)?)?) as Box<dyn Oq>,
            1 => Box::new(OwningQueue::<SimHal, 8, 64>::new(VirtQueue::new(&mut p.t, q, indirect, event_idx, false)?)?),
            _ => Box::new(OwningQueue::<SimHal, 2, 512>::new(VirtQueue::new(&mut p.t, q, indirect, event_idx, false)?)?),
        })
    })();
    match made {
        Ok(o) => p.oq = Some(o),
        Err(_) => return,
    }
    p.t.notify(q);
    for _ in 0..(10 + choose(100)) {
        if violated() {
            break;
        }
        if flip(1, 3) {
            with(|w| {
                w.personality::<HostileDev>().budget += 1 + w.tape.choose(4);
                w.run_device(4);
            });
        } else {
            let mut seen = None;
            let r = guarded(|| {
                let mut h = |b: &[u8]| -> Result<Option<usize>> {
                    seen = Some(b.len());
                    Ok(Some(b.len()))
                };
                p.oq.as_mut().unwrap().poll(&mut p.t, &mut h)
            });
            if let Some(n) = seen {
                nontrivial();
                if n > bufsz {
                    violation("slice-exceeds-buffer", "OwningQueue::poll", format!("handler was given {n} bytes from a {bufsz}-byte buffer"));
                }
            }
            if let Err((m, l)) = r {
                oplog(|| format!("poll panicked: {m} at {l}"));
                break;
            }
        }
        op_point();
    }
    let _ = guarded(move || drop(p));
}

struct DriverRun {
    kind: Kind,
}

impl TransportFn<()> for DriverRun {
    fn call<T: Transport + 'static>(self, t: T) {
        let site = zoo::kind_name(self.kind);
        let mut d: AnyDriver<T> = match guarded(|| zoo::construct(self.kind, t)) {
            Ok(Ok(d)) => d,
            Ok(Err(e)) => {
                oplog(|| format!("construction failed: {e:?}"));
                return;
            }
            Err((m, l)) => {
                oplog(|| format!("construction panicked: {m} at {l}"));
                return;
            }
        };
        for _ in 0..(2 + choose(14)) {
            if violated() {
                break;
            }
            with(|w| w.personality::<HostileDev>().budget += 1 + w.tape.choose(4));
            if flip(1, 3) {
                with(|w| {
                    w.run_device(3);
                });
            }
            let r = guarded(|| -> Option<(usize, usize)> {
                // returns (length of a slice handed to the caller, size of its backing buffer)
                match &mut d {
                    AnyDriver::Net(n) => match n.receive() {
                        Ok(b) => {
                            let l = b.packet().len();
                            let _ = b.header();
                            let _ = n.recycle_rx_buffer(b);
                            Some((l, NET_BUF))
                        }
                        Err(_) => {
                            let _ = zoo::light_use(&mut d, false);
                            None
                        }
                    },
                    AnyDriver::Console(c) => {
                        if flip(1, 4) {
                            // formatted output (core::fmt::Write) and the plain transmit calls
                            let _ = core::fmt::Write::write_str(c, "formatted output");
                            let _ = c.send(b'z');
                            let _ = c.emergency_write(b'!');
                            None
                        } else if flip(1, 2) {
                            let l = BufRead::fill_buf(c).map(|b| b.len()).unwrap_or(0);
                            Some((l, 4096))
                        } else {
                            let mut buf = [0u8; 64];
                            let l = Read::read(c, &mut buf).unwrap_or(0);
                            let _ = c.recv(true);
                            Some((l, 64))
                        }
                    }
                    AnyDriver::Input(i) => {
                        let _ = i.pop_pending_event();
                        let mut out = [0u8; 16];
                        let _ = i.query_config_select(virtio_drivers::device::input::InputConfigSelect::IdName, 0, &mut out);
                        let _ = i.name();
                        match choose(6) {
                            0 => {
                                let _ = i.serial_number();
                            }
                            1 => {
                                let _ = i.ids();
                            }
                            2 => {
                                let _ = i.prop_bits();
                            }
                            3 => {
                                let _ = i.ev_bits(choose(256) as u8);
                            }
                            4 => {
                                let _ = i.abs_info(choose(256) as u8);
                            }
                            _ => {
                                // a caller buffer larger than the 128-byte data field
                                let mut big = [0u8; 300];
                                let r = i.query_config_select(virtio_drivers::device::input::InputConfigSelect::EvBits, choose(256) as u8, &mut big);
                                if let Ok(n) = r {
                                    let _ = &big[..usize::from(n).min(big.len())];
                                }
                            }
                        }
                        let _ = i.ack_interrupt();
                        None
                    }
                    AnyDriver::Sound(s) => {
                        let _ = s.latest_notification();
                        let _ = zoo::light_use(&mut d, flip(1, 2));
                        None
                    }
                    AnyDriver::Socket(s) => {
                        let mut body_len = None;
                        let _ = s.poll(|_e, body| {
                            body_len = Some(body.len());
                            Ok(None)
                        });
                        let _ = zoo::light_use(&mut d, false);
                        body_len.map(|l| (l, zoo::SOCK_RX))
                    }
                    _ => {
                        let _ = zoo::light_use(&mut d, flip(1, 2));
                        None
                    }
                }
            });
            match r {
                Ok(Some((l, cap))) => {
                    nontrivial();
                    if l > cap {
                        violation("slice-exceeds-buffer", site, format!("caller was handed {l} bytes from a {cap}-byte buffer"));
                    }
                }
                Ok(None) => nontrivial(),
                Err((m, l)) => {
                    oplog(|| format!("driver call panicked (allowed): {m} at {l}"));
                    probe("clean_panic");
                    break;
                }
            }
            op_point();
        }
        let _ = guarded(move || drop(d));
    }
}

pub fn hostile_drivers() {
    let kind = KINDS[choose(11) as usize];
    let tk = TKINDS[choose(8) as usize];
    hostile_world();
    // device-specific features: usually all the crate implements, sometimes a subset (error paths
    // must not fall back on mechanisms that were not negotiated; judged by C08's borrowed batch)
    let dev_bits = if flip(1, 3) { kind.implemented_device_bits() & choose(u64::MAX) } else { kind.implemented_device_bits() };
    let mut feats = F_VERSION_1 | F_INDIRECT * choose(2) | F_EVENT_IDX * choose(2) | F_ACCESS_PLATFORM * choose(2) | dev_bits;
    if tk.legacy() {
        feats &= !F_VERSION_1;
    }
    with(|w| w.cfg.gate_config_fields = true);
    // configuration space: arbitrary bytes (allocation-size fields of the sound device capped)
    let mut cfg = kind.default_config();
    if flip(2, 3) {
        for b in cfg.iter_mut() {
            *b = choose(256) as u8;
        }
        fault("config_garbage");
        if kind == Kind::Sound {
            for k in 0..3 {
                let v = choose(65) as u32;
                cfg[4 * k..4 * k + 4].copy_from_slice(&v.to_le_bytes());
            }
        }
    }
    zoo::setup_device(kind, feats, cfg);
    with(|w| w.dev = Some(Box::new(HostileDev { budget: 2 })));
    oplog(|| format!("hostile device vs {} over {tk:?}", zoo::kind_name(kind)));
    let _ = zoo::with_transport(tk, DriverRun { kind });
}

// ---------------------------------------------------------------------------------------------
// (2) scribbling: ordinary scenarios, full functional oracles, device overwrites driver-owned areas

fn scribbled(f: fn()) {
    with(|w| w.cfg.scribble = true);
    f();
}
pub fn queue_scribbled() {
    scribbled(crate::scen::queue::history)
}
pub fn blk_scribbled() {
    scribbled(crate::scen::c14::honest)
}
pub fn console_scribbled() {
    scribbled(crate::scen::c15::run)
}
pub fn net_scribbled() {
    scribbled(crate::scen::c16::buf_run)
}
pub fn owning_scribbled() {
    scribbled(crate::scen::c19::owning_honest)
}
pub fn vsock_scribbled() {
    scribbled(crate::scen::c17::honest)
}

#[allow(dead_code)]
fn _unused(_: EventSource) {}
