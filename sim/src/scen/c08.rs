//! C08: every driver performs the init handshake and honours the negotiated features - ordered
//! seam log of construction for every driver x transport kind x offered feature set, followed by
//! a short usage script whose requests are judged by the reference devices.

use crate::world::*;
use crate::zoo::{self, AnyDriver, KINDS, Kind, TKINDS, TKind, TransportFn};
use virtio_drivers::transport::Transport;

pub const GRID: u64 = 11 * 8;

struct Run {
    kind: Kind,
    offered: u64,
}

/// Feature bits whose semantics the crate implements independent of the device type.
const GENERIC_OK: u64 = (1 << 24) | (1 << 27) | F_INDIRECT | F_EVENT_IDX | (1 << 30) | F_VERSION_1 | F_ACCESS_PLATFORM;

fn check_handshake(kind: Kind, offered: u64, log: &[TrEv], site: &str) {
    let bad = |why: String| violation("init-handshake", site, why);
    let statuses: Vec<(usize, u32)> = log.iter().enumerate().filter_map(|(i, e)| if let TrEv::SetStatus(s) = e { Some((i, *s)) } else { None }).collect();
    if statuses.is_empty() || statuses[0].1 != 0 {
        return bad(format!("the first status write must reset the device (0); status writes: {:x?}", statuses.iter().map(|s| s.1).collect::<Vec<_>>()));
    }
    // nothing that talks to the device's queues/features before the reset
    if let Some(e) = log[..statuses[0].0].iter().find(|e| matches!(e, TrEv::WriteFeatures(_) | TrEv::QueueSet { .. } | TrEv::Notify(_))) {
        return bad(format!("{e:?} before the device was reset"));
    }
    let pos = |pred: &dyn Fn(&TrEv) -> bool| log.iter().position(|e| pred(e));
    let rpos = |pred: &dyn Fn(&TrEv) -> bool| log.iter().rposition(|e| pred(e));
    let ack_driver = pos(&|e| matches!(e, TrEv::SetStatus(s) if s & 3 == 3));
    let read_f = pos(&|e| matches!(e, TrEv::ReadFeatures(_)));
    let write_f_last = rpos(&|e| matches!(e, TrEv::WriteFeatures(_)));
    let feat_ok = pos(&|e| matches!(e, TrEv::SetStatus(s) if s & ST_FEATURES_OK != 0));
    let driver_ok = pos(&|e| matches!(e, TrEv::SetStatus(s) if s & ST_DRIVER_OK != 0));
    let first_qset = pos(&|e| matches!(e, TrEv::QueueSet { .. }));
    let last_qset = rpos(&|e| matches!(e, TrEv::QueueSet { .. }));
    let (Some(ad), Some(rf), Some(wf), Some(fo), Some(dok)) = (ack_driver, read_f, write_f_last, feat_ok, driver_ok) else {
        return bad(format!(
            "handshake incomplete: ACKNOWLEDGE|DRIVER {ack_driver:?}, feature read {read_f:?}, feature write {write_f_last:?}, FEATURES_OK {feat_ok:?}, DRIVER_OK {driver_ok:?} (positions in the seam log)"
        ));
    };
    if !(ad < rf && rf < wf && wf < fo && fo < dok) {
        return bad(format!("order violated: ACKNOWLEDGE|DRIVER@{ad} < read features@{rf} < write features@{wf} < FEATURES_OK@{fo} < DRIVER_OK@{dok}"));
    }
    match (first_qset, last_qset) {
        (Some(a), Some(b)) => {
            if !(fo < a && b < dok) {
                return bad(format!("queues must be configured after FEATURES_OK@{fo} and before DRIVER_OK@{dok}; queue_set at {a}..{b}"));
            }
        }
        _ => return bad("no queue was configured".into()),
    }
    let nq = log.iter().filter(|e| matches!(e, TrEv::QueueSet { .. })).count();
    let want_q = match kind {
        Kind::Rtc => 1,
        k => k.n_queues(),
    };
    if nq != want_q {
        bad(format!("{nq} queues configured, the driver uses {want_q}"));
    }
    // status values only ever gain bits until DRIVER_OK, never FAILED; DRIVER_OK is the last write
    let mut prev = 0u32;
    for (_, s) in statuses.iter().skip(1) {
        if *s == 0 {
            break;
        }
        if s & prev != prev || s & 0x80 != 0 {
            return bad(format!("status went {prev:#x} -> {s:#x}"));
        }
        prev = *s;
    }
    if let Some((i, s)) = statuses.iter().filter(|(_, s)| *s != 0).last() {
        if s & ST_DRIVER_OK == 0 || *i != dok {
            return bad(format!("the last status write of construction must be the one setting DRIVER_OK; got {s:#x}"));
        }
    }
    // accepted features
    let accepted = log.iter().filter_map(|e| if let TrEv::WriteFeatures(f) = e { Some(*f) } else { None }).last().unwrap_or(0);
    if accepted & !offered != 0 {
        violation("features-not-offered", site, format!("accepted {accepted:#x}, offered {offered:#x}: bits {:#x} were never offered", accepted & !offered));
    }
    if offered & F_VERSION_1 != 0 && accepted & F_VERSION_1 == 0 {
        violation("version-1-not-accepted", site, format!("VERSION_1 offered but not accepted ({accepted:#x})"));
    }
    let allowed = GENERIC_OK | kind.implemented_device_bits();
    if accepted & !allowed != 0 {
        violation(
            "unsupported-feature-accepted",
            site,
            format!("accepted {accepted:#x}: bits {:#x} are features whose semantics the driver does not implement", accepted & !allowed),
        );
    }
    if log.iter().take(dok).any(|e| matches!(e, TrEv::Notify(_))) {
        violation("notify-before-driver-ok", site, "available-buffer notification before DRIVER_OK".into());
    }
}

impl TransportFn<()> for Run {
    fn call<T: Transport + 'static>(self, t: T) {
        let site = zoo::kind_name(self.kind);
        with(|w| {
            w.tr.capture = Some(Vec::new());
            w.hal.capture = Some(Vec::new());
        });
        let r = crate::runner::guarded(|| zoo::construct(self.kind, t));
        let (log, hal) = with(|w| (w.tr.capture.take().unwrap_or_default(), w.hal.capture.take().unwrap_or_default()));
        let mut d: AnyDriver<T> = match r {
            Err((msg, loc)) => return violation("construction-panicked", site, format!("{msg} at {loc}")),
            Ok(Err(e)) => return violation("construction-failed", site, format!("{e:?} against a well-formed device offering {:#x}", self.offered)),
            Ok(Ok(d)) => d,
        };
        check_handshake(self.kind, self.offered, &log, site);
        let accepted = with(|w| w.tr.driver_features);
        let ap = accepted & F_ACCESS_PLATFORM != 0;
        let check_ap = |evs: &[HalEv], when: &str| {
            for e in evs {
                let a = match e {
                    HalEv::Alloc { ap, failed: false, .. } => Some(*ap),
                    HalEv::Dealloc { ap, .. } => Some(*ap),
                    HalEv::Share { ap, .. } => Some(*ap),
                    HalEv::Unshare { ap, .. } => Some(*ap),
                    _ => None,
                };
                if let Some(a) = a {
                    if a != ap {
                        violation("access-platform-argument", site, format!("{when}: platform call {e:?} with access_platform={a}, negotiated ACCESS_PLATFORM={ap}"));
                        return;
                    }
                }
            }
        };
        check_ap(&hal, "construction");
        // usage: the reference devices judge every request by the negotiated features
        with(|w| w.hal.capture = Some(Vec::new()));
        let used_event_before = with(|w| w.store_kinds[3]);
        let r = crate::runner::guarded(|| zoo::light_use(&mut d, true));
        match r {
            Err((msg, loc)) => violation("usage-panicked", site, format!("{msg} at {loc}")),
            Ok(Err(e)) => violation("usage-failed", site, format!("{e:?}")),
            Ok(Ok(())) => nontrivial(),
        }
        let hal2 = with(|w| w.hal.capture.take().unwrap_or_default());
        check_ap(&hal2, "usage");
        // The network header has its 12-byte form exactly when VERSION_1 was negotiated: the
        // reference device strips the header of the negotiated size, so the frames it saw are the
        // frames sent (60 bytes, then an empty one) only if the driver used that size throughout.
        if matches!(self.kind, Kind::NetRaw | Kind::Net) && !crate::world::violated() {
            let seen: Vec<usize> = with(|w| w.personality::<crate::devices::net::NetDev>().tx.iter().map(|(_, f)| f.len()).collect());
            let want: &[usize] = if self.kind == Kind::NetRaw { &[60, 0] } else { &[64, 0] };
            if seen != want {
                violation("net-header-size", site, format!("device saw frames of {seen:?} bytes after its {}-byte header, caller sent {want:?}", if accepted & F_VERSION_1 != 0 { 12 } else { 10 }));
            }
        }
        let used_event_after = with(|w| w.store_kinds[3]);
        if accepted & F_EVENT_IDX == 0 && used_event_after != used_event_before {
            violation("event-idx-not-negotiated", site, "used_event was written although EVENT_IDX was not negotiated".into());
        }
        // With EVENT_IDX negotiated the used-event index must have been re-armed after every
        // consumed completion: on request queues everything has been consumed by now.
        if accepted & F_EVENT_IDX != 0 {
            for q in self.kind.request_queues() {
                let (ue, used, done) = with(|w| (w.used_event_mem(*q), w.dq.get(*q as usize).map(|d| d.used_idx), w.dq.get(*q as usize).map(|d| d.completed).unwrap_or(0)));
                if done > 0 && ue != used {
                    violation("used-event-not-rearmed", site, format!("queue {q}: EVENT_IDX negotiated, {done} completions consumed, used_event is {ue:?} (device's used index {used:?})"));
                }
            }
        }
        with(|w| w.check_no_lost_wakeup(site));
        drop(d);
    }
}

pub fn run() {
    let cell = choose(GRID);
    let kind = KINDS[(cell % 11) as usize];
    let tk = TKINDS[(cell / 11) as usize % 8];
    crate::scen::queue::draw_device_policy();
    let mut offered = match choose(8) {
        0 => 0,
        1 => u64::MAX,
        2 => 1u64 << choose(64),
        3 => F_VERSION_1,
        4 => choose(u64::MAX),
        _ => choose(1 << 41) | if flip(1, 2) { F_VERSION_1 } else { 0 },
    };
    if tk.legacy() {
        // a legacy device cannot offer VERSION_1
        offered &= !F_VERSION_1;
    }
    // the sound driver sizes allocations from configuration; keep it well-formed
    zoo::setup_device(kind, offered, kind.default_config());
    zoo::install_personality(kind);
    with(|w| w.cfg.gate_config_fields = true);
    if kind == Kind::Gpu && flip(1, 6) {
        // nothing plugged into scanout 0: the display-info rectangle is empty
        with(|w| w.personality::<crate::devices::gpu::GpuDev>().display = (0, 0));
    }
    if flip(1, 8) {
        // fault: the status register never shows FEATURES_OK. What the driver makes of that is its
        // business, but it still must not kick a queue before it has written DRIVER_OK.
        with(|w| w.tr.features_ok_not_latched = true);
        fault("features_ok_not_latched");
    }
    oplog(|| format!("{} over {tk:?}, offered features {offered:#x}", zoo::kind_name(kind)));
    if let Err(e) = zoo::with_transport(tk, Run { kind, offered }) {
        violation("transport-construction-failed", "zoo", e);
    }
    with(|w| {
        w.stats.states.insert(crate::rng::mix(&[cell, offered & 0x3_3000_0000]));
    });
}
