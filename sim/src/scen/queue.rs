//! Bare `VirtQueue` scenario family: seeded histories of submissions, device completions in any
//! order and completion polls against the real queue, with the reference device core as C01/C02
//! oracle, a small reference model as C03 oracle, the SimHal ledger as C04 oracle and the
//! notification rules as C05 oracle.

use crate::hal::SimHal;
use crate::mtransport::ModelTransport;
use crate::vq::vring_need_event;
use crate::world::*;
use virtio_drivers::queue::VirtQueue;
use virtio_drivers::transport::Transport;
use virtio_drivers::{Error, Result};

/// Size-erased view of `VirtQueue<SimHal, SIZE>`.
pub trait QApi {
    /// # Safety
    /// as `VirtQueue::add`
    unsafe fn add<'a, 'b>(&mut self, i: &'a [&'b [u8]], o: &'a mut [&'b mut [u8]]) -> Result<u16>;
    /// # Safety
    /// as `VirtQueue::pop_used`
    unsafe fn pop_used<'a>(&mut self, t: u16, i: &'a [&'a [u8]], o: &'a mut [&'a mut [u8]]) -> Result<u32>;
    fn add_notify_wait_pop<'a>(&mut self, i: &'a [&'a [u8]], o: &'a mut [&'a mut [u8]], t: &mut ModelTransport) -> Result<u32>;
    fn can_pop(&self) -> bool;
    fn peek_used(&self) -> Option<u16>;
    fn available_desc(&self) -> usize;
    fn should_notify(&self) -> bool;
    fn set_dev_notify(&mut self, e: bool);
    fn size(&self) -> usize;
}

impl<const SIZE: usize> QApi for VirtQueue<SimHal, SIZE> {
    unsafe fn add<'a, 'b>(&mut self, i: &'a [&'b [u8]], o: &'a mut [&'b mut [u8]]) -> Result<u16> {
        // SAFETY: forwarded contract.
        unsafe { VirtQueue::add(self, i, o) }
    }
    unsafe fn pop_used<'a>(&mut self, t: u16, i: &'a [&'a [u8]], o: &'a mut [&'a mut [u8]]) -> Result<u32> {
        // SAFETY: forwarded contract.
        unsafe { VirtQueue::pop_used(self, t, i, o) }
    }
    fn add_notify_wait_pop<'a>(&mut self, i: &'a [&'a [u8]], o: &'a mut [&'a mut [u8]], t: &mut ModelTransport) -> Result<u32> {
        VirtQueue::add_notify_wait_pop(self, i, o, t)
    }
    fn can_pop(&self) -> bool {
        VirtQueue::can_pop(self)
    }
    fn peek_used(&self) -> Option<u16> {
        VirtQueue::peek_used(self)
    }
    fn available_desc(&self) -> usize {
        VirtQueue::available_desc(self)
    }
    fn should_notify(&self) -> bool {
        VirtQueue::should_notify(self)
    }
    fn set_dev_notify(&mut self, e: bool) {
        VirtQueue::set_dev_notify(self, e)
    }
    fn size(&self) -> usize {
        SIZE
    }
}

pub const SIZES: [usize; 16] = [1, 2, 4, 8, 16, 32, 64, 128, 256, 512, 1024, 2048, 4096, 8192, 16384, 32768];

pub fn new_queue<T: Transport>(size: usize, t: &mut T, idx: u16, indirect: bool, event_idx: bool, ap: bool) -> Result<Box<dyn QApi>> {
    macro_rules! mk {
        ($($n:literal),*) => {
            match size {
                $($n => Ok(Box::new(VirtQueue::<SimHal, $n>::new(t, idx, indirect, event_idx, ap)?) as Box<dyn QApi>),)*
                _ => panic!("unsupported size {size}"),
            }
        };
    }
    mk!(1, 2, 4, 8, 16, 32, 64, 128, 256, 512, 1024, 2048, 4096, 8192, 16384, 32768)
}

#[derive(Clone, Copy, Debug)]
pub struct QCfg {
    pub size: usize,
    pub qidx: u16,
    pub indirect: bool,
    pub event_idx: bool,
    pub ap: bool,
    pub legacy: bool,
}

/// Draws a queue configuration; small sizes are much more likely than huge ones.
pub fn draw_qcfg(max_size_log2: u64) -> QCfg {
    // 0 -> size 4 (simplest useful), biased towards small
    let pick = choose(16);
    let log2 = match pick {
        0 => 2,
        1 => 0,
        2 => 1,
        3 => 3,
        4 => 4,
        5 | 6 => 2,
        7 => 3,
        8 => 5,
        9 => 6,
        10 => 1,
        11 => 4,
        _ => {
            // Sizes above 1024 cost milliseconds per run (queue memory is zeroed, validated and
            // filled entry by entry); three quarters of those draws are folded back to 32..512.
            let l = choose(max_size_log2 + 1);
            if l > 10 && !flip(1, 4) {
                l - 6
            } else {
                l
            }
        }
    }
    .min(max_size_log2);
    QCfg {
        size: 1 << log2,
        qidx: choose(3) as u16,
        indirect: flip(1, 2),
        event_idx: flip(1, 2),
        ap: flip(1, 3),
        legacy: flip(1, 3),
    }
}

/// Platform sharing mode: two thirds of the runs bounce every buffer (device address space
/// disjoint from the caller's buffers), one third shares in place (the device reads and writes
/// the caller's buffer itself, as on identity-mapped platforms).
pub fn draw_sharing_mode() {
    let direct = flip(1, 3);
    with(|w| w.hal.bounce = !direct);
    if direct {
        probe("in_place_sharing");
    }
}

pub fn draw_device_policy() {
    let serve = if flip(1, 3) { ServePolicy::Poll } else { ServePolicy::NotifyOnly };
    let suppress = if flip(1, 2) { Suppress::WhileBusy } else { Suppress::Never };
    let in_order = flip(1, 4);
    let max_steps = 1 + choose(4);
    let eighths = 1 + choose(7);
    with(|w| {
        w.cfg.serve = serve;
        w.cfg.suppress = suppress;
        w.cfg.in_order = in_order;
        w.cfg.max_steps = max_steps;
        w.cfg.step_eighths = eighths;
    });
}

/// Prepares the world for a bare queue (no driver init handshake) and creates it.
pub fn setup_bare(c: &QCfg) -> (ModelTransport, Result<Box<dyn QApi>>) {
    with(|w| {
        w.ensure_queues(4, 32768);
        w.tr.legacy = c.legacy;
        w.tr.driver_features = (if c.indirect { F_INDIRECT } else { 0 })
            | (if c.event_idx { F_EVENT_IDX } else { 0 })
            | (if c.ap { F_ACCESS_PLATFORM } else { 0 })
            | (if c.legacy { 0 } else { F_VERSION_1 });
        w.tr.status = ST_ACK | ST_DRIVER | ST_FEATURES_OK;
    });
    let mut t = ModelTransport::new();
    let q = new_queue(c.size, &mut t, c.qidx, c.indirect, c.event_idx, c.ap);
    with(|w| {
        w.tr.status |= ST_DRIVER_OK;
        if let Some(dq) = w.dq.get_mut(c.qidx as usize) {
            dq.consumed = Some(0);
        }
    });
    (t, q)
}

struct Sub {
    token: u16,
    inputs: Vec<Box<[u8]>>,
    outputs: Vec<Box<[u8]>>,
    out_orig: Vec<Vec<u8>>,
    /// (device address, len, dir) of every share made for this submission, table last if any
    shares: Vec<(u64, usize, usize, Dir)>,
    table: Option<(u64, usize)>,
    seq: u64,
    in_hash: u64,
    cost: usize,
}

pub struct Harness {
    pub c: QCfg,
    // Field order matters: like every in-tree driver, the transport is dropped (device reset)
    // before the queue memory is released.
    pub t: ModelTransport,
    pub q: Box<dyn QApi>,
    outstanding: Vec<Sub>,
    held: usize,
    subs: u64,
    /// driver-side count of successful pops (== last_used_idx)
    consumed: u16,
    /// available index at the last should_notify check
    checked_avail: u16,
    avail: u16,
    dev_notify: bool,
    light: bool,
    fill: u8,
}

fn mk_buf(len: usize, tag: u8) -> Box<[u8]> {
    (0..len).map(|i| tag.wrapping_add((i as u8).wrapping_mul(3))).collect()
}

impl Harness {
    pub fn new(c: QCfg) -> Option<Harness> {
        let (t, q) = setup_bare(&c);
        if c.size <= 16 {
            with(|w| {
                let snap = w.driver_areas(c.qidx);
                w.store_audit = snap.map(|s| (c.qidx, s));
            });
        }
        match q {
            Ok(q) => Some(Harness {
                c,
                q,
                t,
                outstanding: Vec::new(),
                held: 0,
                subs: 0,
                consumed: 0,
                checked_avail: 0,
                avail: 0,
                dev_notify: true,
                light: false,
                fill: 1,
            }),
            Err(e) => {
                violation("queue-create-failed", "new", format!("VirtQueue::new failed on a free, large-enough queue: {e:?}"));
                None
            }
        }
    }

    fn free(&self) -> usize {
        self.c.size - self.held
    }

    fn cost(&self, n: usize) -> usize {
        if self.c.indirect { 1 } else { n }
    }

    fn state_probe(&self, last_token: u16) {
        let h = crate::rng::mix(&[
            self.c.size as u64,
            (self.c.indirect as u64) | (self.c.event_idx as u64) << 1,
            self.outstanding.len() as u64,
            self.held as u64,
            (self.avail as u64) & (self.c.size as u64 - 1),
            last_token as u64,
            with(|w| w.dq[self.c.qidx as usize].used_fifo.len() as u64),
        ]);
        with(|w| {
            if w.stats.states.len() < 4096 {
                w.stats.states.insert(h);
            }
        });
    }

    /// One submission with full oracle checking. `n_in`/`n_out` may be 0/0 (must be refused) or
    /// exceed capacity (must be refused).
    pub fn add(&mut self, n_in: usize, n_out: usize, lens: &[usize]) -> Option<u16> {
        let q = self.c.qidx;
        let n = n_in + n_out;
        self.fill = self.fill.wrapping_add(17);
        let inputs: Vec<Box<[u8]>> = (0..n_in).map(|i| mk_buf(lens[i], self.fill.wrapping_add(i as u8))).collect();
        let mut outputs: Vec<Box<[u8]>> = (0..n_out).map(|i| mk_buf(lens[n_in + i], 0xA0u8.wrapping_add(self.fill).wrapping_add(i as u8))).collect();
        let out_orig: Vec<Vec<u8>> = outputs.iter().map(|b| b.to_vec()).collect();
        let expect_ok = n >= 1
            && n <= self.c.size
            && if self.c.indirect { self.held + 1 <= self.c.size } else { self.held + n <= self.c.size };
        let (idx_before, stores_before, ring_before) = with(|w| {
            w.hal.capture = Some(Vec::new());
            w.add_guard = Some((q, false));
            let ring = if self.c.size <= 64 && !self.light { self.ring_snapshot(w) } else { vec![] };
            (w.avail_idx_mem(q).unwrap_or(0), w.store_events, ring)
        });
        let avail_desc_before = self.q.available_desc();
        // Fault: the heap allocation of the indirect table fails. The library reports that as a
        // panic (it unwraps zerocopy's AllocError); an error return would do as well. Either way
        // the submission did not happen and must have had no side effects - or, if the library
        // chose to publish the chain directly instead, that needs `n` free descriptors.
        let heap_fault = expect_ok && self.c.indirect && n > 1 && with(|w| w.cfg.heap_faults) && flip(1, 6);
        if heap_fault {
            crate::heapwatch::arm_zeroed_failure(16 * n);
        }
        let res = {
            let ins: Vec<&[u8]> = inputs.iter().map(|b| &b[..]).collect();
            let mut outs: Vec<&mut [u8]> = outputs.iter_mut().map(|b| &mut b[..]).collect();
            // SAFETY: the buffers are kept alive (boxed, owned by `Sub`) until popped.
            let q = &mut self.q;
            if heap_fault { crate::runner::guarded(|| unsafe { q.add(&ins, &mut outs) }) } else { Ok(unsafe { q.add(&ins, &mut outs) }) }
        };
        let heap_fault = heap_fault && crate::heapwatch::disarm_zeroed_failure();
        let cap = with(|w| {
            w.add_guard = None;
            w.hal.capture.take().unwrap_or_default()
        });
        let mut fallback_direct = false;
        let res = match res {
            Ok(r) => {
                if heap_fault && r.is_ok() {
                    // published without a table: a direct chain, which costs n descriptors
                    fallback_direct = true;
                    probe("heap_failure_direct_fallback");
                }
                r
            }
            Err((msg, loc)) => {
                fault("heap_alloc_fail");
                oplog(|| format!("  (table allocation failed: panic at {loc}: {msg})"));
                // (Stores to queue memory that the available index does not cover - a ring slot
                // written early, say - are not judged: the device cannot see them, and the
                // monitors of in-flight descriptors and ring slots stay on.)
                let idx_after = with(|w| w.avail_idx_mem(q).unwrap_or(0));
                if !cap.is_empty() || idx_after != idx_before || self.q.available_desc() != avail_desc_before {
                    violation(
                        "refused-add-side-effect",
                        "add/indirect",
                        format!(
                            "add that failed because its indirect table could not be allocated had side effects: {} hal events, available index {idx_before}->{idx_after}, available_desc {}->{}",
                            cap.len(),
                            avail_desc_before,
                            self.q.available_desc()
                        ),
                    );
                }
                return None;
            }
        };
        if heap_fault {
            fault("heap_alloc_fail");
        }
        let expect_ok = expect_ok && (!fallback_direct || self.held + n <= self.c.size);
        let site = if self.c.indirect && n > 1 { "add/indirect" } else { "add/direct" };
        match res {
            Err(e) => {
                if heap_fault {
                    // an error return instead of a panic: fine, as long as nothing happened
                    let (idx_after, stores_after) = with(|w| (w.avail_idx_mem(q).unwrap_or(0), w.store_events));
                    if !cap.is_empty() || idx_after != idx_before || stores_after != stores_before || self.q.available_desc() != avail_desc_before {
                        violation("refused-add-side-effect", site, format!("add that failed with {e:?} (table allocation failure) had side effects"));
                    }
                    return None;
                }
                if expect_ok {
                    violation("add-refused-wrongly", site, format!("add of {n_in}+{n_out} buffers refused with {e:?} although {} of {} descriptors are free", self.free(), self.c.size));
                    return None;
                }
                let want = if n == 0 { Error::InvalidParam } else { Error::QueueFull };
                if e != want {
                    violation("add-wrong-error", site, format!("add of {n} buffers with {} free returned {e:?}, expected {want:?}", self.free()));
                }
                let (idx_after, stores_after) = with(|w| (w.avail_idx_mem(q).unwrap_or(0), w.store_events));
                if !cap.is_empty() || idx_after != idx_before || stores_after != stores_before || self.q.available_desc() != avail_desc_before {
                    violation(
                        "refused-add-side-effect",
                        site,
                        format!(
                            "refused add had side effects: hal events {:?}, available index {idx_before}->{idx_after}, {} stores, available_desc {}->{}",
                            cap.len(),
                            stores_after - stores_before,
                            avail_desc_before,
                            self.q.available_desc()
                        ),
                    );
                }
                probe("add_refused");
                None
            }
            Ok(token) => {
                if !expect_ok {
                    violation("add-accepted-wrongly", site, format!("add of {n_in}+{n_out} buffers accepted although only {} of {} descriptors are free", self.free(), self.c.size));
                    return None;
                }
                self.subs += 1;
                self.avail = self.avail.wrapping_add(1);
                if self.avail == 0 {
                    probe("avail_idx_wrapped");
                }
                // ---- C04: ledger of this submission
                let mut shares: Vec<(u64, usize, usize, Dir)> = Vec::new();
                for e in &cap {
                    match e {
                        HalEv::Share { paddr, ptr, len, dir, ap } => {
                            if *ap != self.c.ap {
                                violation("share-access-platform", site, format!("share called with access_platform={ap}, queue has {}", self.c.ap));
                            }
                            shares.push((*paddr, *ptr, *len, *dir));
                        }
                        other => violation("add-unexpected-hal-call", site, format!("unexpected platform call during add: {other:?}")),
                    }
                }
                let mut expected: Vec<Elem> = Vec::new();
                let mut ok = true;
                let bufs: Vec<(usize, usize, Dir)> = inputs
                    .iter()
                    .map(|b| (b.as_ptr() as usize, b.len(), Dir::DriverToDevice))
                    .chain(outputs.iter().map(|b| (b.as_ptr() as usize, b.len(), Dir::DeviceToDriver)))
                    .collect();
                for (ptr, len, dir) in &bufs {
                    let m: Vec<_> = shares.iter().filter(|s| s.1 == *ptr).collect();
                    if m.len() != 1 || m[0].2 != *len || m[0].3 != *dir {
                        violation(
                            "share-mismatch",
                            site,
                            format!(
                                "caller buffer (len {len}, {}) was shared {} time(s){}",
                                dir.name(),
                                m.len(),
                                m.first().map(|s| format!(" as len {} dir {}", s.2, s.3.name())).unwrap_or_default()
                            ),
                        );
                        ok = false;
                        break;
                    }
                    expected.push(Elem { addr: m[0].0, len: *len as u32, write: *dir == Dir::DeviceToDriver });
                }
                // Whether this chain goes through an indirect table is the queue's choice (a queue
                // with the feature may still publish a chain directly, given the descriptors); the
                // model follows what the device sees and judges what follows from it.
                let observed_table = with(|w| w.dq[q as usize].recent.iter().rev().find(|c| c.avail_pos == idx_before).map(|c| c.indirect.is_some()));
                let uses_table = observed_table.unwrap_or(self.c.indirect && n > 1 && !fallback_direct);
                if uses_table && !self.c.indirect {
                    violation("indirect-usage", site, "an indirect table was used although indirect descriptors are not enabled for the queue".into());
                }
                if !uses_table && self.held + n > self.c.size {
                    violation("add-accepted-wrongly", site, format!("direct chain of {n} descriptors published although only {} of {} descriptors are free", self.free(), self.c.size));
                    return None;
                }
                let mut table = None;
                if ok {
                    let extra: Vec<_> = shares.iter().filter(|s| !bufs.iter().any(|b| b.0 == s.1)).collect();
                    if uses_table {
                        if extra.len() != 1 || extra[0].2 != 16 * n || extra[0].3 != Dir::DriverToDevice {
                            violation("indirect-table-share", site, format!("indirect table for {n} buffers: extra shares {:?}", extra.iter().map(|s| (s.2, s.3.name())).collect::<Vec<_>>()));
                            ok = false;
                        } else {
                            table = Some((extra[0].0, extra[0].2));
                        }
                    } else if !extra.is_empty() {
                        violation("share-extra", site, format!("{} share(s) that are not caller buffers", extra.len()));
                        ok = false;
                    }
                }
                // ---- C01/C02: what the device sees
                let (idx_after, chain) = with(|w| {
                    let dq = &w.dq[q as usize];
                    (w.avail_idx_mem(q).unwrap_or(0), dq.recent.iter().rev().find(|c| c.avail_pos == idx_before).cloned())
                });
                if idx_after != idx_before.wrapping_add(1) {
                    violation("avail-idx-step", site, format!("available index went {idx_before} -> {idx_after} for one submission"));
                }
                let mut seq = 0;
                match chain {
                    None => {
                        if !violated() {
                            violation("published-chain-missing", site, format!("no valid chain visible at available position {idx_before} after add returned"));
                        }
                    }
                    Some(ch) => {
                        seq = ch.seq;
                        if ch.head != token {
                            violation("token-head-mismatch", site, format!("add returned token {token} but ring slot holds head {}", ch.head));
                        }
                        if ok && ch.elems != expected {
                            violation(
                                "chain-mismatch",
                                site,
                                format!("device sees {:x?}, caller supplied (as device addresses) {:x?}", ch.elems, expected),
                            );
                        }

                        if let (Some((ta, tl)), Some((sa, sl))) = (ch.indirect, table) {
                            if ta != sa || tl as usize != sl {
                                violation("indirect-table-address", site, format!("table descriptor {ta:#x}+{tl} but table was shared as {sa:#x}+{sl}"));
                            }
                        }
                        let want_descs = if uses_table { 1 } else { n };
                        if ch.descs.len() != want_descs {
                            violation("descriptor-count", site, format!("chain uses {} descriptors, expected {want_descs}", ch.descs.len()));
                        }
                    }
                }
                if !ring_before.is_empty() {
                    let ring_after = with(|w| self.ring_snapshot(w));
                    let slot = idx_before as usize % self.c.size;
                    for (i, (a, b)) in ring_before.iter().zip(ring_after.iter()).enumerate() {
                        if i != slot && a != b {
                            violation("ring-slot-other-changed", site, format!("ring slot {i} changed ({a}->{b}) by a submission that owns slot {slot}"));
                        }
                    }
                }
                let _ = fallback_direct;
                let cost = if uses_table { 1 } else { n };
                self.held += cost;
                let in_hash = {
                    let mut all = Vec::new();
                    for b in &inputs {
                        all.extend_from_slice(b);
                    }
                    hash_bytes(&all)
                };
                if self.outstanding.len() >= 2 && self.subs > self.c.size as u64 {
                    nontrivial();
                }
                self.outstanding.push(Sub { token, inputs, outputs, out_orig, shares, table, seq, in_hash, cost });
                self.check_available_desc(site);
                self.state_probe(token);
                // the property quantifies over batches of up to SIZE submissions between two checks
                if self.avail.wrapping_sub(self.checked_avail) as usize >= self.c.size {
                    self.check_notify();
                }
                Some(token)
            }
        }
    }

    fn ring_snapshot(&self, w: &World) -> Vec<u16> {
        let r = &w.tr.queues[self.c.qidx as usize];
        (0..self.c.size).map(|i| w.hal.read_u16(r.driver + 4 + 2 * i as u64).unwrap_or(0xdead)).collect()
    }

    fn check_available_desc(&mut self, site: &str) {
        let got = self.q.available_desc();
        if self.c.indirect {
            // behavioural meaning: add of n buffers succeeds iff 1 <= n <= available_desc()
            let want = if self.held == self.c.size { 0 } else { self.c.size };
            if got != want {
                violation("available-desc", site, format!("available_desc()={got} with {} of {} descriptors held in indirect mode (an add of up to {want} buffers would succeed)", self.held, self.c.size));
            }
        } else if got != self.c.size - self.held {
            violation("available-desc", site, format!("available_desc()={got}, model says {} (size {} - held {})", self.c.size - self.held, self.c.size, self.held));
        }
    }

    /// should_notify against the specification, then notify if told to.
    pub fn check_notify(&mut self) {
        let q = self.c.qidx;
        let got = self.q.should_notify();
        let (flags, event) = with(|w| {
            let r = &w.tr.queues[q as usize];
            (w.hal.read_u16(r.device).unwrap_or(0), w.hal.read_u16(r.device + 4 + 8 * r.size as u64).unwrap_or(0))
        });
        if self.c.event_idx {
            let need = self.avail != self.checked_avail && vring_need_event(event, self.avail, self.checked_avail);
            if need && !got {
                violation(
                    "lost-notification",
                    "should_notify/event-idx",
                    format!(
                        "device asked to be notified at available index {event}; driver made entries {}..{} available since its last check but should_notify() is false",
                        self.checked_avail,
                        self.avail.wrapping_sub(1)
                    ),
                );
            }
            if need {
                probe("notify_needed_event_idx");
            }
        } else {
            let want = flags & 1 == 0;
            if got != want {
                violation("notify-flag", "should_notify/flag", format!("used.flags={flags:#x} but should_notify()={got}"));
            }
        }
        self.checked_avail = self.avail;
        if got {
            self.t.notify(q);
        }
    }

    fn model_head(&self) -> Option<(u32, u32)> {
        with(|w| w.dq[self.c.qidx as usize].used_fifo.front().copied())
    }

    /// Poll for a completion, presenting `token`.
    pub fn pop(&mut self, token: u16) {
        let q = self.c.qidx;
        let Some(pos) = self.outstanding.iter().position(|s| s.token == token) else {
            return;
        };
        let head = self.model_head();
        // peeks first
        let can = self.q.can_pop();
        let peek = self.q.peek_used();
        if can != head.is_some() {
            violation("can-pop", "can_pop", format!("can_pop()={can} but the device has {} unconsumed completion(s)", if head.is_some() { "some" } else { "no" }));
        }
        if peek != head.map(|h| h.0 as u16) {
            violation("peek-used", "peek_used", format!("peek_used()={peek:?}, next used element is {head:?}"));
        }
        // writable buffers must still hold their pre-submission content
        {
            let s = &self.outstanding[pos];
            for (b, o) in s.outputs.iter().zip(s.out_orig.iter()) {
                // (with in-place sharing the device legitimately writes the buffer itself)
                if b[..] != o[..] && with(|w| w.hal.bounce) {
                    violation("buffer-touched-early", "pop_used", "a device-writable caller buffer changed before its completion was consumed".into());
                }
            }
        }
        let (stores_before, desc_before) = with(|w| {
            w.hal.capture = Some(Vec::new());
            (w.store_events, 0)
        });
        let _ = desc_before;
        let avail_desc_before = self.q.available_desc();
        let res = {
            let s = &mut self.outstanding[pos];
            let ins: Vec<&[u8]> = s.inputs.iter().map(|b| &b[..]).collect();
            let mut outs: Vec<&mut [u8]> = s.outputs.iter_mut().map(|b| &mut b[..]).collect();
            // SAFETY: these are the buffers passed to `add` for this token.
            unsafe { self.q.pop_used(token, &ins, &mut outs) }
        };
        let cap = with(|w| w.hal.capture.take().unwrap_or_default());
        let expected: std::result::Result<u32, Error> = match head {
            None => Err(Error::NotReady),
            Some((id, _)) if id as u16 != token => Err(Error::WrongToken),
            Some((_, len)) => Ok(len),
        };
        if res != expected {
            violation(
                "pop-result",
                "pop_used",
                format!("pop_used(token {token}) returned {res:?}; used ring head is {head:?}, so expected {expected:?}"),
            );
            if res.is_ok() {
                // keep the model roughly in step so that drop is clean
                let s = self.outstanding.remove(pos);
                self.held -= s.cost;
            }
            return;
        }
        match res {
            Err(e) => {
                let stores_after = with(|w| w.store_events);
                if !cap.is_empty() || stores_after != stores_before || self.q.available_desc() != avail_desc_before || self.q.peek_used() != peek {
                    violation("failed-pop-side-effect", "pop_used", format!("pop_used returning {e:?} changed state: {} hal events, {} stores", cap.len(), stores_after - stores_before));
                }
                if e == Error::WrongToken {
                    probe("pop_wrong_token");
                } else {
                    probe("pop_not_ready");
                }
            }
            Ok(len) => {
                probe("pop_ok");
                if pos != 0 {
                    probe("consumed_out_of_submission_order");
                    nontrivial();
                }
                let s = self.outstanding.remove(pos);
                self.held -= s.cost;
                self.consumed = self.consumed.wrapping_add(1);
                with(|w| {
                    let dq = &mut w.dq[q as usize];
                    dq.used_fifo.pop_front();
                    dq.consumed = Some(self.consumed);
                });
                // ---- C04: unshares == shares of this submission
                let mut un: Vec<(u64, usize, usize, Dir)> = Vec::new();
                for e in &cap {
                    match e {
                        HalEv::Unshare { paddr, ptr, len, dir, ap, .. } => {
                            if *ap != self.c.ap {
                                violation("unshare-access-platform", "pop_used", format!("unshare called with access_platform={ap}"));
                            }
                            un.push((*paddr, *ptr, *len, *dir));
                        }
                        other => violation("pop-unexpected-hal-call", "pop_used", format!("unexpected platform call during pop_used: {other:?}")),
                    }
                }
                let mut a = s.shares.clone();
                a.sort();
                un.sort();
                if a != un {
                    violation(
                        "unshare-set-mismatch",
                        "pop_used",
                        format!(
                            "completion of token {token}: shared {:?} but unshared {:?} (device address, len, direction)",
                            a.iter().map(|x| (x.0, x.2, x.3.name())).collect::<Vec<_>>(),
                            un.iter().map(|x| (x.0, x.2, x.3.name())).collect::<Vec<_>>()
                        ),
                    );
                }
                // ---- data: device bytes appear exactly now; what the device read is what we sent
                let seen = with(|w| w.personality::<PatternDevice>().seen.remove(&(q, s.seq)));
                if let Some((h, l, reported, used)) = seen {
                    let inlen: usize = s.inputs.iter().map(|b| b.len()).sum();
                    if l != inlen || h != s.in_hash {
                        violation("device-read-wrong-data", "pop_used", format!("device read {l} bytes with hash {h:x}, caller supplied {inlen} bytes with hash {:x}", s.in_hash));
                    }
                    if reported != len {
                        violation("pop-length", "pop_used", format!("device recorded length {reported}, pop_used returned {len}"));
                    }
                    let mut off = 0usize;
                    for (b, o) in s.outputs.iter().zip(s.out_orig.iter()) {
                        for i in 0..b.len() {
                            let want = if off < used as usize { pattern_byte(s.seq, off) } else { o[i] };
                            if b[i] != want {
                                violation(
                                    "output-data",
                                    "pop_used",
                                    format!("byte {off} of the writable part is {:#x}, expected {want:#x} (device wrote {used} bytes)", b[i]),
                                );
                                off = usize::MAX / 2;
                                break;
                            }
                            off += 1;
                        }
                        if off >= usize::MAX / 2 {
                            break;
                        }
                    }
                } else if !violated() && !self.light {
                    violation("completion-without-service", "pop_used", format!("pop_used(token {token}) succeeded but the device never served chain seq {}", s.seq));
                }
                for (b, i) in s.inputs.iter().zip(0..) {
                    let _ = (b, i);
                }
                // ---- C05(b)
                if self.c.event_idx && !with(|w| w.cfg.scribble) {
                    let ue = with(|w| w.used_event_mem(q).unwrap_or(0));
                    if ue != self.consumed {
                        violation("used-event-not-rearmed", "pop_used", format!("after consuming {} completions used_event is {ue}", self.consumed));
                    }
                }
                self.check_available_desc("pop_used");
                self.state_probe(token);
            }
        }
    }

    pub fn set_dev_notify(&mut self, e: bool) {
        self.q.set_dev_notify(e);
        self.dev_notify = e;
        self.check_avail_flags();
    }

    fn check_avail_flags(&mut self) {
        if !self.c.event_idx && !with(|w| w.cfg.scribble) {
            let f = with(|w| w.avail_flags_mem(self.c.qidx).unwrap_or(0xffff));
            let want = if self.dev_notify { 0 } else { 1 };
            if f != want {
                violation("avail-flags", "set_dev_notify", format!("device reads avail.flags={f:#x}, last set_dev_notify({}) means {want}", self.dev_notify));
            }
        }
    }

    /// Fill to capacity with single-buffer chains: exactly `free` more must fit.
    pub fn fill_probe(&mut self) {
        let free = self.free();
        let mut added = 0;
        for _ in 0..free {
            if violated() {
                return;
            }
            if self.add(if added % 2 == 0 { 1 } else { 0 }, if added % 2 == 0 { 0 } else { 1 }, &[3]).is_none() {
                return;
            }
            added += 1;
        }
        // one more must be refused
        self.add(1, 0, &[1]);
        probe("fill_probe");
    }

    pub fn random_op(&mut self, max_len: usize) {
        let q = self.c.qidx;
        let k = choose(16);
        match k {
            0..=5 => {
                // add
                let cap = self.c.size.min(6);
                let mode = choose(12);
                let (n_in, n_out) = match mode {
                    0 => (0, 0),
                    1 => {
                        // more than capacity
                        let n = self.c.size + 1 + choose(2) as usize;
                        (n / 2, n - n / 2)
                    }
                    2 => {
                        // exactly what is free / one more than free
                        let n = (self.free() + choose(2) as usize).min(self.c.size + 1);
                        let a = choose(n as u64 + 1) as usize;
                        (a, n - a)
                    }
                    _ => {
                        let n = 1 + choose(cap as u64) as usize;
                        let a = choose(n as u64 + 1) as usize;
                        (a, n - a)
                    }
                };
                let n = n_in + n_out;
                let lens: Vec<usize> = (0..n)
                    .map(|_| {
                        if flip(1, 8) { 1 + choose(max_len as u64) as usize } else { 1 + choose(24) as usize }
                    })
                    .collect();
                oplog(|| format!("add in={n_in} out={n_out} lens={:?}", &lens[..lens.len().min(8)]));
                self.add(n_in, n_out, &lens);
                if flip(3, 4) {
                    self.check_notify();
                }
            }
            6..=8 => {
                // pop the right token (if the model knows one), else any outstanding
                if let Some((id, _)) = self.model_head() {
                    oplog(|| format!("pop token={id} (right)"));
                    self.pop(id as u16);
                } else if !self.outstanding.is_empty() {
                    let i = choose(self.outstanding.len() as u64) as usize;
                    let t = self.outstanding[i].token;
                    oplog(|| format!("pop token={t} (nothing used yet)"));
                    self.pop(t);
                }
            }
            9 => {
                // wrong token
                if self.outstanding.len() >= 2 {
                    let head = self.model_head().map(|h| h.0 as u16);
                    let cands: Vec<u16> = self.outstanding.iter().map(|s| s.token).filter(|t| Some(*t) != head).collect();
                    if !cands.is_empty() {
                        let t = cands[choose(cands.len() as u64) as usize];
                        oplog(|| format!("pop token={t} (wrong)"));
                        self.pop(t);
                    }
                }
            }
            10 | 11 => {
                let n = 1 + choose(4);
                oplog(|| format!("device runs {n} step(s)"));
                with(|w| {
                    w.run_device(n);
                });
            }
            12 => {
                self.check_notify();
            }
            13 => {
                let e = flip(1, 2);
                oplog(|| format!("set_dev_notify({e})"));
                self.set_dev_notify(e);
            }
            14 => {
                if self.c.size <= 64 && flip(1, 3) {
                    oplog(|| "fill to capacity".to_string());
                    self.fill_probe();
                    self.check_notify();
                } else {
                    // force a notification regardless (a driver may always notify)
                    self.t.notify(q);
                }
            }
            _ => {
                // drain: device serves everything, driver consumes everything
                if flip(1, 2) {
                    oplog(|| "drain".to_string());
                    self.drain();
                }
            }
        }
    }

    /// Device serves everything it has been told about; driver consumes in used-ring order.
    pub fn drain(&mut self) {
        self.check_notify();
        self.t.notify(self.c.qidx);
        with(|w| w.drain_device());
        let mut guard = 0;
        while let Some((id, _)) = self.model_head() {
            self.pop(id as u16);
            guard += 1;
            if violated() || guard > 70_000 {
                break;
            }
        }
    }

    /// End of run: everything comes back, nothing is leaked.
    pub fn finish(mut self) {
        // Sometimes the queue goes away with chains still outstanding: its DMA memory must be
        // returned all the same (the buffers of those chains stay shared: nobody consumed them).
        let abandon = !violated() && !self.outstanding.is_empty() && flip(1, 4);
        if abandon {
            probe("queue_dropped_with_chains_outstanding");
        }
        if !violated() && !abandon {
            self.drain();
        }
        if !violated() && !abandon && !self.outstanding.is_empty() {
            violation("chains-never-completed", "finish", format!("{} chain(s) still outstanding after the device served everything it was notified about", self.outstanding.len()));
        }
        let q = self.c.qidx;
        let clean = !violated();
        drop(self.t);
        drop(self.q);
        with(|w| {
            if clean {
                if !abandon && !w.hal.shares.is_empty() {
                    let n = w.hal.shares.len();
                    w.violation("share-leak", "finish", format!("{n} buffer(s) still shared after every completion was consumed"));
                }
                if !w.hal.dma.is_empty() {
                    let n = w.hal.dma.len();
                    w.violation("dma-leak", "finish", format!("{n} DMA region(s) still allocated after the queue was dropped"));
                }
            }
            let _ = q;
        });
    }
}

/// The standard history: random configuration, random device policy, random operations.
pub fn history() {
    let c = draw_qcfg(if crate::runner::tier() == crate::runner::Tier::Thorough { 15 } else { 10 });
    draw_device_policy();
    draw_sharing_mode();
    let n_ops = 10 + choose(if c.size <= 16 { 300 } else { 120 });
    oplog(|| format!("config {c:?} policy {:?} ops {n_ops}", with(|w| (w.cfg.serve, w.cfg.suppress, w.cfg.in_order))));
    let Some(mut h) = Harness::new(c) else { return };
    for _ in 0..n_ops {
        if violated() {
            break;
        }
        h.random_op(8192);
        with(|w| w.audit_stores(c.qidx, None));
        op_point();
    }
    h.finish();
}

/// The same history against a device that sometimes records a used length different from what it
/// wrote (a fault the queue layer must pass through unchanged: it reports what the device
/// recorded).
/// The same history on a platform where the heap allocation of an indirect table sometimes fails.
pub fn history_heapfail() {
    with(|w| w.cfg.heap_faults = true);
    history();
}

pub fn history_faulty() {
    with(|w| w.personality::<PatternDevice>().lie_len = true);
    history();
}

/// Long history: more than 65536 submissions so that all 16-bit indices wrap with chains
/// outstanding. Most of the distance is covered in a cheap fast-forward phase (batches of
/// submissions, device drains, in-order consumption; oracles stay on, device interleaving at
/// store points is off); around the wrap the full random mode is used.
pub fn wrap_history() {
    let mut c = draw_qcfg(6);
    if c.size < 2 {
        c.size = 2;
    }
    draw_device_policy();
    let margin = choose(40) as u16;
    oplog(|| format!("wrap config {c:?} margin {margin}"));
    let Some(mut h) = Harness::new(c) else { return };
    with(|w| {
        w.cfg.step_at_stores = false;
        w.cfg.step_eighths = 0;
        w.quiet = true;
        w.personality::<PatternDevice>().full_len = true;
    });
    h.light = true;
    let target = 0u16.wrapping_sub(margin).wrapping_sub(c.size as u16);
    // The fast-forward phase is driven by a local generator seeded from ONE tape value, so the
    // tape (and with it the replay file and the shrinker's work) stays small: the interesting
    // choices are the configuration above and the random phase across the wrap below.
    let mut local = crate::rng::Xoshiro::new(choose(u64::MAX));
    let mut guard = 0u32;
    while h.avail != target && !violated() {
        let room = h.free().min(target.wrapping_sub(h.avail) as usize);
        let batch = 1 + (local.next() % room.max(1) as u64) as usize;
        for _ in 0..batch.min(room.max(1)) {
            let two = !c.indirect && h.free() >= 2 && local.next() % 4 == 0;
            if two {
                h.add(1, 1, &[2, 2]);
            } else if local.next() % 2 == 0 {
                h.add(1, 0, &[2]);
            } else {
                h.add(0, 1, &[2]);
            }
            if h.avail == target {
                break;
            }
        }
        h.drain();
        guard += 1;
        if guard > 200_000 {
            with(|w| w.harness_errors.push("wrap fast-forward does not converge".into()));
            return;
        }
    }
    with(|w| {
        w.cfg.step_at_stores = true;
        w.cfg.step_eighths = 4;
        w.quiet = false;
        w.personality::<PatternDevice>().full_len = false;
    });
    h.light = false;
    nontrivial();
    let n_ops = 100 + choose(200);
    for _ in 0..n_ops {
        if violated() {
            break;
        }
        h.random_op(64);
        op_point();
    }
    h.finish();
}

/// Blocking helper `add_notify_wait_pop` under every device policy (C05 c).
pub fn blocking_history() {
    let c = draw_qcfg(8);
    draw_device_policy();
    oplog(|| format!("blocking config {c:?} policy {:?}", with(|w| (w.cfg.serve, w.cfg.suppress))));
    let (t, q) = setup_bare(&c);
    let Ok(q) = q else { return };
    // drop order: transport (device reset) first, then the queue memory
    struct Pair {
        t: ModelTransport,
        q: Box<dyn QApi>,
    }
    let mut p = Pair { t, q };
    let (t, q) = (&mut p.t, &mut p.q);
    let n_ops = 1 + choose(40);
    // buffers of requests that are still with the device when the run ends
    let mut stranded: Vec<Box<[u8]>> = Vec::new();
    for k in 0..n_ops {
        if violated() {
            break;
        }
        let n_in = choose(3) as usize;
        let n_out = if n_in == 0 { 1 + choose(2) as usize } else { choose(3) as usize };
        if n_in + n_out > c.size {
            continue;
        }
        let cost = |n: usize| if c.indirect && n > 1 { 1 } else { n };
        // Sometimes another (non-blocking) request is already in flight when the blocking helper
        // is called: the helper must still tell the device about its own request, and if the other
        // completion arrives first it reports WrongToken and leaves everything as it is.
        let mut bg: Option<(u16, Box<[u8]>)> = None;
        if flip(1, 3) && q.available_desc() > cost(n_in + n_out) {
            let mut b = mk_buf(1 + choose(16) as usize, 0xAB);
            // SAFETY: `b` is kept until the request has been popped or the queue is gone.
            let r = unsafe { q.add(&[], &mut [&mut b[..]]) };
            match r {
                Ok(tok) => {
                    if q.should_notify() {
                        t.notify(c.qidx);
                    }
                    oplog(|| format!("add (in flight during the blocking call) -> token {tok}"));
                    bg = Some((tok, b));
                }
                Err(e) => violation("add-result", "add", format!("single-buffer add with free descriptors: {e:?}")),
            }
        }
        let free_before = q.available_desc();
        let ins: Vec<Box<[u8]>> = (0..n_in).map(|i| mk_buf(1 + choose(32) as usize, (k as u8).wrapping_mul(7).wrapping_add(i as u8))).collect();
        let mut outs: Vec<Box<[u8]>> = (0..n_out).map(|_| mk_buf(1 + choose(32) as usize, 0xEE)).collect();
        let spins_before = with(|w| w.stats.spins);
        let r = {
            let i2: Vec<&[u8]> = ins.iter().map(|b| &b[..]).collect();
            let mut o2: Vec<&mut [u8]> = outs.iter_mut().map(|b| &mut b[..]).collect();
            q.add_notify_wait_pop(&i2, &mut o2, t)
        };
        oplog(|| format!("add_notify_wait_pop in={n_in} out={n_out} -> {r:?}"));
        let (front, spins_after) = with(|w| (w.dq[c.qidx as usize].used_fifo.front().copied(), w.stats.spins));
        let other_first = matches!((&bg, front), (Some((tok, _)), Some((id, _))) if id == *tok as u32);
        if other_first {
            probe("blocking_call_overtaken");
            if r != Err(Error::WrongToken) {
                violation("blocking-result", "add_notify_wait_pop", format!("the other request (token {}) completed first; expected Err(WrongToken), got {r:?}", bg.as_ref().unwrap().0));
            }
            // nothing was consumed and the helper's own request is still outstanding
            let free = q.available_desc();
            // (with indirect descriptors available_desc() only tells full from not full)
            if !c.indirect && free + cost(n_in + n_out) != free_before {
                violation("free-count", "add_notify_wait_pop", format!("after WrongToken {free} descriptors are free; {free_before} were free before the call and its chain (still with the device) holds {}", cost(n_in + n_out)));
            }
            with(|w| w.check_no_lost_wakeup("blocking/overtaken"));
            let (tok, mut b) = bg.take().unwrap();
            // SAFETY: same buffer as passed to add.
            let pr = unsafe { q.pop_used(tok, &[], &mut [&mut b[..]]) };
            let l = front.unwrap().1;
            if pr != Ok(l) {
                violation("pop-result", "pop_used", format!("the overtaking request: pop_used({tok}) returned {pr:?}, device recorded {l}"));
            }
            with(|w| {
                w.dq[c.qidx as usize].used_fifo.pop_front();
            });
            stranded.extend(ins);
            stranded.extend(outs);
            nontrivial();
            break;
        }
        with(|w| {
            w.dq[c.qidx as usize].used_fifo.pop_front();
        });
        match (r, front) {
            (Ok(len), Some((_, l))) => {
                if len != l {
                    violation("pop-length", "add_notify_wait_pop", format!("returned {len}, device recorded {l}"));
                }
                if spins_after > spins_before {
                    nontrivial();
                }
            }
            (r, f) => violation("blocking-result", "add_notify_wait_pop", format!("returned {r:?}, device completions: {f:?}")),
        }
        if let Some((tok, mut b)) = bg.take() {
            // the other request completes later: let the device finish and collect it
            with(|w| w.drain_device());
            let rec = with(|w| w.dq[c.qidx as usize].used_fifo.pop_front());
            // SAFETY: same buffer as passed to add.
            let pr = unsafe { q.pop_used(tok, &[], &mut [&mut b[..]]) };
            match (pr, rec) {
                (Ok(len), Some((id, l))) if id == tok as u32 && len == l => {}
                (pr, rec) => {
                    if !violated() {
                        violation("pop-result", "pop_used", format!("request in flight during a blocking call: pop_used({tok}) returned {pr:?}, device recorded {rec:?}"));
                    }
                    stranded.push(b);
                }
            }
        }
        op_point();
    }
    drop(p);
    drop(stranded);
}

/// Sweep of the notification predicate (C05 a): the available index is walked through all 65536
/// values on a real event-idx queue; before each batch the device's `avail_event` field is set to a
/// candidate value, the batch is made available and `should_notify()` is asked exactly once
/// ("among the entries made available since the driver last checked") and compared with the
/// specification's `vring_need_event(event, new, old)`: whenever the specification says "notify",
/// the driver must say so too. One candidate per walk through the index space, the walks spread
/// over 16 threads. Quick tier: batch sizes 1, 2 and 4 with a band of +-8 event values around both
/// ends of the batch and the extremes; thorough tier: batch size 1 with every event value within
/// +-2048 of the new index and the extremes.
pub fn notify_sweep(t: crate::runner::Tier) -> crate::runner::ExtraResult {
    use std::sync::Mutex;
    use std::sync::atomic::{AtomicU64, Ordering};
    let full = t == crate::runner::Tier::Thorough;
    let evals = AtomicU64::new(0);
    let bad: Mutex<Vec<(String, String)>> = Mutex::new(Vec::new());
    let nthreads = 16u32;
    std::thread::scope(|sc| {
        for th in 0..nthreads {
            let evals = &evals;
            let bad = &bad;
            std::thread::Builder::new()
                .stack_size(64 << 20)
                .spawn_scoped(sc, move || {
                    let mut w = World::new(crate::rng::Tape::generate(th as u64), WorldCfg::default());
                    w.cfg.device_active = false;
                    install(w);
                    let c = QCfg { size: 4, qidx: 0, indirect: false, event_idx: true, ap: false, legacy: false };
                    let (tr, q) = setup_bare(&c);
                    let Ok(mut q) = q else { return };
                    // host pointer of the device-written avail_event field
                    let ev_ptr = with(|w| {
                        let r = &w.tr.queues[0];
                        let a = r.device + 4 + 8 * r.size as u64;
                        let reg = w.hal.find_dma(a, 2).expect("used ring in DMA memory");
                        (reg.vaddr + (a - reg.paddr) as usize) as *mut u16
                    });
                    let buf = [0u8; 1];
                    let mut avail: u32 = 0;
                    let mut local = 0u64;
                    let step = |q: &mut Box<dyn QApi>, n: u32, avail: &mut u32| {
                        // n submissions
                        let mut toks = Vec::new();
                        for _ in 0..n {
                            // SAFETY: `buf` outlives the queue
                            toks.push(unsafe { q.add(&[&buf], &mut []) }.expect("add"));
                            *avail += 1;
                        }
                        toks
                    };
                    let finish = |q: &mut Box<dyn QApi>, toks: Vec<u16>| {
                        // the device serves and the driver consumes them
                        with(|w| {
                            w.dq[0].notified = true;
                            w.drain_device();
                        });
                        for _ in 0..toks.len() {
                            let t = q.peek_used().expect("completion");
                            // SAFETY: same buffer
                            unsafe { q.pop_used(t, &[&buf], &mut []) }.expect("pop");
                        }
                        with(|w| w.dq[0].used_fifo.clear());
                    };
                    // "...among the entries made available since the driver last checked": the
                    // driver is asked exactly once per batch, so that an implementation which
                    // remembers what it has already reported is judged correctly too. One
                    // candidate event value per walk through all 65536 index values; the walks are
                    // distributed over the threads.
                    const QUICK_CANDIDATES: u32 = 17 + 17 + 8;
                    // thorough tier: a band of +-2048 around the end of the batch and the extremes
                    // (the complete 2^16 x 2^16 square costs a submission per pair: a quarter of an
                    // hour on this machine, for pairs that differ from the band only in distance)
                    let n_cand: u32 = if full { 4096 + 8 } else { QUICK_CANDIDATES };
                    let mut cand = th;
                    while cand < n_cand && bad.lock().unwrap().is_empty() {
                        let walk_end = avail + 65536;
                        while avail < walk_end {
                            let batch = if full { 1 } else { [1u32, 2, 4][((avail & 0xffff) % 3) as usize] }.min(walk_end - avail);
                            let old = avail as u16;
                            let new = (avail + batch) as u16;
                            let event: u16 = if full {
                                if cand < 4096 {
                                    new.wrapping_add((cand as i32 - 2048) as u16)
                                } else {
                                    [0u16, 1, 0x7fff, 0x8000, 0xfffe, 0xffff, old.wrapping_add(0x8000), new.wrapping_add(0x7fff)][(cand - 4096) as usize]
                                }
                            } else if cand < 17 {
                                old.wrapping_add((cand as i32 - 8) as u16)
                            } else if cand < 34 {
                                new.wrapping_add((cand as i32 - 17 - 8) as u16)
                            } else {
                                [0u16, 1, 0x7fff, 0x8000, 0xfffe, 0xffff, old.wrapping_add(0x8000), new.wrapping_add(0x7fff)][(cand - 34) as usize]
                            };
                            // the device publishes the index at which it wants to be notified
                            // before the driver makes the batch available
                            // SAFETY: points into live DMA memory of this thread's queue
                            unsafe { ev_ptr.write_volatile(event) };
                            let toks = step(&mut q, batch, &mut avail);
                            let got = q.should_notify();
                            local += 1;
                            if vring_need_event(event, new, old) && !got {
                                let mut b = bad.lock().unwrap();
                                if b.len() < 3 {
                                    b.push((
                                        "lost-notification@should_notify/sweep".to_string(),
                                        format!("available index {old} -> {new} (batch {}), device asked for event index {event}: the specification requires a notification, should_notify() is false", new.wrapping_sub(old)),
                                    ));
                                }
                                break;
                            }
                            finish(&mut q, toks);
                        }
                        cand += nthreads;
                    }
                    // SAFETY: as above
                    unsafe { ev_ptr.write_volatile(0) };
                    evals.fetch_add(local, Ordering::Relaxed);
                    drop(tr);
                    drop(q);
                    let _ = uninstall();
                })
                .expect("spawn");
        }
    });
    let violations = bad.into_inner().unwrap();
    crate::runner::ExtraResult {
        evaluations: evals.load(Ordering::Relaxed),
        exhaustive: false,
        description: if full {
            "should_notify() asked once per submission vs vring_need_event for all 65536 available-index values at batch size 1 and every event index within +-2048 of the new index plus the extremes (4104 walks through the index space)".into()
        } else {
            "should_notify() asked once per batch vs vring_need_event, for all 65536 available-index values, batch sizes 1/2/4, event indices in a band of +-8 around both ends of the batch plus extremes (42 walks through the index space)".into()
        },
        violations,
    }
}
