//! C09: teardown and failed construction free each resource once, after quiescing.
//! (a) fault enumeration: for every driver x transport kind the k-th DMA allocation of
//!     construction + usage fails, for every k; (b) drop at a random point of a usage history
//!     with requests outstanding; (c) construction failing for other reasons after DRIVER_OK.
//! The monitors that decide the property are always on (sim/src/hal.rs, heapwatch.rs): DMA
//! release arguments, double free, queue memory of a live queue, posted heap buffers.

use crate::world::*;
use crate::zoo::{self, AnyDriver, KINDS, Kind, TKINDS, TransportFn};
use virtio_drivers::Error;
use virtio_drivers::transport::Transport;

pub const MAX_K: u64 = 14;
pub const GRID: u64 = 11 * 8 * MAX_K;

struct FailRun {
    kind: Kind,
    k: u64,
}

fn end_checks(site: &str) {
    with(|w| {
        if !w.hal.dma.is_empty() && w.violations.is_empty() {
            let v: Vec<(u64, usize)> = w.hal.dma.values().map(|r| (r.paddr, r.pages)).collect();
            w.violation("dma-leak", site, format!("DMA regions still allocated after the driver was dropped: {v:x?}"));
        }
    });
}

impl TransportFn<()> for FailRun {
    fn call<T: Transport + 'static>(self, t: T) {
        let site = zoo::kind_name(self.kind);
        let fired = || with(|w| w.stats.faults.get("dma_alloc_fail").copied().unwrap_or(0));
        with(|w| w.hal.fail_alloc_at = Some(w.hal.alloc_calls + self.k));
        let r = crate::runner::guarded(|| zoo::construct(self.kind, t));
        match r {
            Err((msg, loc)) => return violation("construction-panicked", site, format!("allocation {} failed: {msg} at {loc}", self.k)),
            Ok(Err(e)) => {
                if fired() == 0 {
                    violation("construction-failed", site, format!("{e:?} without any injected fault"));
                } else {
                    nontrivial();
                    if e != Error::DmaError {
                        violation("dma-failure-misreported", site, format!("allocation {} failed during construction; new() returned {e:?} instead of DmaError", self.k));
                    }
                }
            }
            Ok(Ok(mut d)) => {
                if fired() != 0 {
                    violation("dma-failure-ignored", site, format!("allocation {} failed during construction but new() returned Ok", self.k));
                }
                let r = crate::runner::guarded(|| zoo::light_use(&mut d, true));
                match r {
                    Err((msg, loc)) => violation("usage-panicked", site, format!("allocation {} failed: {msg} at {loc}", self.k)),
                    Ok(Err(e)) => {
                        if fired() == 0 {
                            violation("usage-failed", site, format!("{e:?} without any injected fault"));
                        } else {
                            nontrivial();
                            if e != Error::DmaError {
                                violation("dma-failure-misreported", site, format!("allocation {} failed during use; the call returned {e:?} instead of DmaError", self.k));
                            }
                        }
                    }
                    Ok(Ok(())) => {
                        if fired() != 0 {
                            violation("dma-failure-ignored", site, format!("allocation {} failed during use but every call returned Ok", self.k));
                        }
                    }
                }
                drop(d);
            }
        }
        with(|w| w.hal.fail_alloc_at = None);
        end_checks(site);
    }
}

pub fn alloc_fail() {
    let cell = choose(GRID);
    let kind = KINDS[(cell % 11) as usize];
    let tk = TKINDS[((cell / 11) % 8) as usize];
    let k = 1 + (cell / 88) % MAX_K;
    crate::scen::queue::draw_device_policy();
    let mut feats = F_VERSION_1 | F_INDIRECT * choose(2) | F_EVENT_IDX * choose(2) | F_ACCESS_PLATFORM * choose(2) | kind.implemented_device_bits();
    if tk.legacy() {
        feats &= !F_VERSION_1;
    }
    zoo::setup_device(kind, feats, kind.default_config());
    zoo::install_personality(kind);
    oplog(|| format!("{} over {tk:?}: DMA allocation number {k} fails", zoo::kind_name(kind)));
    if let Err(e) = zoo::with_transport(tk, FailRun { kind, k }) {
        violation("transport-construction-failed", "zoo", e);
    }
    with(|w| {
        w.stats.states.insert(cell);
    });
}

// ---------------------------------------------------------------------------------------------

struct DropRun {
    kind: Kind,
}

impl TransportFn<()> for DropRun {
    fn call<T: Transport + 'static>(self, t: T) {
        let site = zoo::kind_name(self.kind);
        let mut d = match zoo::construct(self.kind, t) {
            Ok(d) => d,
            Err(e) => return violation("construction-failed", site, format!("{e:?}")),
        };
        // buffers the caller lends to the driver; they are freed only after the driver is gone
        let mut keep: Vec<Box<[u8]>> = Vec::new();
        let mut keep_req: Vec<(Box<virtio_drivers::device::blk::BlkReq>, Box<virtio_drivers::device::blk::BlkResp>)> = Vec::new();
        let mut sound_tokens: Vec<u16> = Vec::new();
        let n = choose(12);
        for step in 0..n {
            if violated() {
                break;
            }
            oplog(|| format!("step {step}"));
            match &mut d {
                AnyDriver::Blk(b) => {
                    if flip(1, 2) {
                        let mut buf: Box<[u8]> = vec![0u8; 512].into_boxed_slice();
                        let mut req = Box::new(virtio_drivers::device::blk::BlkReq::default());
                        let mut resp = Box::new(virtio_drivers::device::blk::BlkResp::default());
                        // SAFETY: buffers are kept until after the driver is dropped.
                        let _ = unsafe { b.read_blocks_nb(choose(100) as usize, &mut req, &mut buf, &mut resp) };
                        keep.push(buf);
                        keep_req.push((req, resp));
                    } else {
                        let _ = zoo::light_use(&mut d, false);
                    }
                }
                AnyDriver::NetRaw(nr) => {
                    if flip(1, 2) {
                        let mut buf: Box<[u8]> = vec![0u8; 1600].into_boxed_slice();
                        // SAFETY: kept until after the driver is dropped.
                        let _ = unsafe { nr.receive_begin(&mut buf) };
                        keep.push(buf);
                    } else {
                        let mut buf: Box<[u8]> = vec![0u8; 80].into_boxed_slice();
                        // SAFETY: kept until after the driver is dropped.
                        let _ = unsafe { nr.transmit_begin(&buf) };
                        keep.push(std::mem::take(&mut buf));
                    }
                }
                AnyDriver::Net(nb) => {
                    with(|w| {
                        w.personality::<crate::devices::net::NetDev>().inbound.push_back(vec![1; 50]);
                        w.run_device(2);
                    });
                    if let Ok(b) = nb.receive() {
                        if flip(1, 2) {
                            let _ = nb.recycle_rx_buffer(b);
                        }
                    }
                }
                AnyDriver::Console(c) => {
                    with(|w| {
                        w.personality::<crate::devices::console::ConsoleDev>().input.push_back(vec![65; 10]);
                        w.run_device(2);
                    });
                    let _ = c.recv(flip(1, 2));
                    let _ = c.send(b'z');
                }
                AnyDriver::Sound(s) => {
                    use virtio_drivers::device::sound::{PcmFeatures, PcmFormat, PcmRate};
                    if step == 0 {
                        let _ = s.pcm_set_params(0, 32, 16, PcmFeatures::empty(), 1, PcmFormat::U8, PcmRate::Rate8000);
                    } else if sound_tokens.is_empty() && flip(1, 3) {
                        // blocking playback; the device may answer a transfer with an error status
                        let frames: Box<[u8]> = vec![7u8; 16 * (1 + choose(6) as usize)].into_boxed_slice();
                        let _ = s.pcm_xfer(0, &frames);
                        // the caller's buffer is released right after the call returned
                        drop(frames);
                    } else if flip(1, 2) || sound_tokens.is_empty() {
                        if let Ok(t) = s.pcm_xfer_nb(0, &[1u8; 16]) {
                            sound_tokens.push(t);
                        }
                    } else {
                        // acknowledge a transfer - possibly before the device completed it, or not
                        // the one the device completed first
                        let i = choose(sound_tokens.len() as u64) as usize;
                        let t = sound_tokens[i];
                        if s.pcm_xfer_ok(t).is_ok() {
                            sound_tokens.remove(i);
                        }
                    }
                    with(|w| {
                        w.personality::<crate::devices::sound::SoundDev>().events.budget += 1;
                        w.run_device(1);
                    });
                }
                AnyDriver::Gpu(_) => {
                    let _ = zoo::light_use(&mut d, flip(1, 2));
                }
                _ => {
                    let _ = zoo::light_use(&mut d, flip(1, 3));
                }
            }
            op_point();
        }
        nontrivial();
        // the driver goes first, the caller's buffers afterwards
        drop(d);
        drop(keep);
        drop(keep_req);
        end_checks(site);
    }
}

pub fn drop_anywhere() {
    let kind = KINDS[choose(11) as usize];
    let tk = TKINDS[choose(8) as usize];
    crate::scen::queue::draw_device_policy();
    let mut feats = F_VERSION_1 | F_INDIRECT * choose(2) | F_EVENT_IDX * choose(2) | F_ACCESS_PLATFORM * choose(2) | kind.implemented_device_bits() & !(1 << 5 & if kind == Kind::Blk { u64::MAX } else { 0 });
    if tk.legacy() {
        feats &= !F_VERSION_1;
    }
    zoo::setup_device(kind, feats, kind.default_config());
    zoo::install_personality(kind);
    if kind == Kind::Sound && flip(1, 2) {
        // transfers may complete with an error status (an honest device that reports errors)
        with(|w| w.personality::<crate::devices::sound::SoundDev>().faulty = true);
    }
    // (not for the GPU: its resource backing stays attached until the device is reset, which is
    // outside what this property says about queue memory and posted buffers)
    if kind != Kind::Gpu && flip(1, 3) {
        with(|w| w.tr.no_reset_on_drop = true);
        probe("transport_without_reset_on_drop");
    }
    oplog(|| format!("{} over {tk:?}: drop at a random point of a usage history", zoo::kind_name(kind)));
    if let Err(e) = zoo::with_transport(tk, DropRun { kind }) {
        violation("transport-construction-failed", "zoo", e);
    }
}

// ---------------------------------------------------------------------------------------------

struct BadConfigRun {
    kind: Kind,
}

impl TransportFn<()> for BadConfigRun {
    fn call<T: Transport + 'static>(self, t: T) {
        let site = zoo::kind_name(self.kind);
        match crate::runner::guarded(|| zoo::construct(self.kind, t)) {
            Err((msg, loc)) => violation("construction-panicked", site, format!("{msg} at {loc}")),
            Ok(Ok(d)) => drop(d),
            Ok(Err(_)) => nontrivial(),
        }
        end_checks(site);
    }
}

/// Construction that fails for a reason other than DMA exhaustion (configuration space too
/// small, empty 9P mount tag): whatever was set up must be torn down without releasing queue
/// memory under a live device.
pub fn bad_config() {
    let kind = [Kind::P9, Kind::Blk, Kind::Socket, Kind::NetRaw, Kind::Console, Kind::Gpu, Kind::Sound][choose(7) as usize];
    let tk = TKINDS[choose(8) as usize];
    let mut feats = F_VERSION_1 | F_INDIRECT * choose(2) | F_EVENT_IDX * choose(2) | kind.implemented_device_bits();
    if tk.legacy() {
        feats &= !F_VERSION_1;
    }
    let mut cfg = kind.default_config();
    match (kind, choose(3)) {
        (Kind::P9, 0) => {
            cfg[0] = 0;
            cfg[1] = 0;
        }
        (Kind::P9, 1) => {
            // tag longer than the configuration space
            cfg[0] = 200;
        }
        (_, _) => {
            let n = choose(cfg.len() as u64 + 1) as usize;
            cfg.truncate(n & !3);
        }
    }
    zoo::setup_device(kind, feats, cfg.clone());
    zoo::install_personality(kind);
    oplog(|| format!("{} over {tk:?} with configuration space {:x?}", zoo::kind_name(kind), &cfg[..cfg.len().min(12)]));
    if let Err(e) = zoo::with_transport(tk, BadConfigRun { kind }) {
        violation("transport-construction-failed", "zoo", e);
    }
}
