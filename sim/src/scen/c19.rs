//! C19: queues the driver keeps stocked with its own buffers - `OwningQueue` directly,
//! `VirtIOInput` and `VirtIOSound::latest_notification`.

use crate::devices::events::*;
use crate::hal::SimHal;
use crate::mtransport::ModelTransport;
use crate::world::*;
use crate::zoo::{self, Input, Kind, Sound, TKind, TransportFn};
use std::collections::BTreeMap;
use virtio_drivers::queue::{OwningQueue, VirtQueue};
use virtio_drivers::transport::Transport;
use virtio_drivers::{Error, Result};

type Handler<'a> = &'a mut dyn FnMut(&[u8]) -> Result<Option<Vec<u8>>>;

pub trait OQ {
    fn poll(&mut self, t: &mut ModelTransport, h: Handler) -> Result<Option<Vec<u8>>>;
    fn should_notify(&self) -> bool;
    fn set_dev_notify(&mut self, e: bool);
}

impl<const S: usize, const B: usize> OQ for OwningQueue<SimHal, S, B> {
    fn poll(&mut self, t: &mut ModelTransport, h: Handler) -> Result<Option<Vec<u8>>> {
        OwningQueue::poll(self, t, |b| h(b))
    }
    fn should_notify(&self) -> bool {
        OwningQueue::should_notify(self)
    }
    fn set_dev_notify(&mut self, e: bool) {
        OwningQueue::set_dev_notify(self, e)
    }
}

const SHAPES: [(usize, usize); 6] = [(2, 16), (4, 64), (8, 512), (16, 8), (32, 12), (1, 32)];

fn make(shape: usize, t: &mut ModelTransport, q: u16, indirect: bool, event_idx: bool, ap: bool) -> Result<Box<dyn OQ>> {
    macro_rules! mk {
        ($s:literal, $b:literal) => {
            Ok(Box::new(OwningQueue::<SimHal, $s, $b>::new(VirtQueue::<SimHal, $s>::new(t, q, indirect, event_idx, ap)?)?) as Box<dyn OQ>)
        };
    }
    match shape {
        0 => mk!(2, 16),
        1 => mk!(4, 64),
        2 => mk!(8, 512),
        3 => mk!(16, 8),
        4 => mk!(32, 12),
        _ => mk!(1, 32),
    }
}

/// Number of chains the device has been given and has not completed.
fn posted(w: &World, q: u16) -> usize {
    let avail = w.avail_idx_mem(q).unwrap_or(0);
    avail.wrapping_sub(w.dq[q as usize].used_idx) as usize
}

pub fn owning_run(lie: bool) {
    let shape = choose(SHAPES.len() as u64) as usize;
    let (size, bufsz) = SHAPES[shape];
    let q = choose(3) as u16;
    let (indirect, event_idx, ap, legacy) = (flip(1, 2), flip(1, 2), flip(1, 3), flip(1, 3));
    crate::scen::queue::draw_device_policy();
    crate::scen::queue::draw_sharing_mode();
    oplog(|| format!("OwningQueue<{size},{bufsz}> on queue {q} indirect {indirect} event_idx {event_idx} policy {:?} lying lengths {lie}", with(|w| (w.cfg.serve, w.cfg.suppress, w.cfg.in_order))));
    with(|w| {
        w.ensure_queues(4, 32768);
        w.tr.legacy = legacy;
        w.tr.driver_features = (if indirect { F_INDIRECT } else { 0 }) | (if event_idx { F_EVENT_IDX } else { 0 }) | (if ap { F_ACCESS_PLATFORM } else { 0 }) | (if legacy { 0 } else { F_VERSION_1 });
        w.tr.status = ST_ACK | ST_DRIVER | ST_FEATURES_OK;
        let mut d = EventSource::new(q);
        d.lie_len = lie;
        w.dev = Some(Box::new(d));
        w.hal.capture = Some(Vec::new());
    });
    struct Pair {
        t: ModelTransport,
        oq: Option<Box<dyn OQ>>,
    }
    let mut p = Pair { t: ModelTransport::new(), oq: None };
    match make(shape, &mut p.t, q, indirect, event_idx, ap) {
        Ok(o) => p.oq = Some(o),
        Err(e) => {
            violation("owning-new-failed", "new", format!("{e:?}"));
            return;
        }
    }
    // token i <-> i-th buffer shared during the initial fill
    let cap = with(|w| w.hal.capture.take().unwrap());
    let mut token_ptr: BTreeMap<u16, usize> = BTreeMap::new();
    for (i, e) in cap.iter().filter(|e| matches!(e, HalEv::Share { .. })).enumerate() {
        if let HalEv::Share { ptr, len, dir, .. } = e {
            if *len != bufsz || *dir != Dir::DeviceToDriver {
                violation("owning-buffer-share", "new", format!("initial buffer {i} shared as len {len} {}", dir.name()));
            }
            token_ptr.insert(i as u16, *ptr);
        }
    }
    if token_ptr.len() != size {
        violation("owning-initial-fill", "new", format!("{} buffers posted initially, queue size {size}", token_ptr.len()));
    }
    with(|w| w.tr.status |= ST_DRIVER_OK);
    // "The caller is responsible for notifying the device if should_notify returns true."
    if p.oq.as_ref().unwrap().should_notify() {
        p.t.notify(q);
    }
    with(|w| w.check_no_lost_wakeup("owning-new"));
    let n_ops = 10 + choose(150);
    let mut delivered_total = 0u64;
    let mut lost_buffers = 0usize;
    for _ in 0..n_ops {
        if violated() {
            break;
        }
        match choose(8) {
            0 | 1 => {
                let burst = 1 + choose(size as u64 + 2);
                oplog(|| format!("device may emit {burst} more event(s)"));
                with(|w| w.personality::<EventSource>().budget += burst);
                // events arrive through interrupts / polling; a notify-only device still needs to
                // have been told about the buffers, which check_no_lost_wakeup guarantees
                with(|w| {
                    w.run_device(burst + 2);
                });
            }
            2 => {
                let e = flip(1, 2);
                p.oq.as_mut().unwrap().set_dev_notify(e);
            }
            _ => {
                // poll with a handler that succeeds, declines or fails
                let mode = choose(5);
                let expect = with(|w| w.personality::<EventSource>().delivered.front().cloned());
                let mut seen: Option<Vec<u8>> = None;
                let mut h = |b: &[u8]| -> Result<Option<Vec<u8>>> {
                    seen = Some(b.to_vec());
                    match mode {
                        0 => Ok(None),
                        1 => Err(Error::InvalidParam),
                        _ => Ok(Some(b.to_vec())),
                    }
                };
                let r = p.oq.as_mut().unwrap().poll(&mut p.t, &mut h);
                oplog(|| format!("poll (handler mode {mode}) -> {:?}", r.as_ref().map(|o| o.as_ref().map(|v| v.len()))));
                match expect {
                    None => {
                        if r != Ok(None) || seen.is_some() {
                            violation("owning-spurious-delivery", "poll", format!("nothing was completed but poll returned {r:?}"));
                        }
                    }
                    Some(rec) => {
                        with(|w| {
                            w.personality::<EventSource>().delivered.pop_front();
                            w.dq[q as usize].used_fifo.pop_front();
                        });
                        if rec.reported as usize > bufsz {
                            // lying device: the driver must refuse rather than expose more than the buffer
                            if let Some(s) = &seen {
                                if s.len() > bufsz {
                                    violation("owning-oversized-delivery", "poll", format!("handler saw {} bytes from a {bufsz}-byte buffer", s.len()));
                                }
                            }
                            if r.is_ok() && seen.is_some() && rec.reported as usize > bufsz {
                                // tolerated only if the slice was clipped
                            }
                            // the refused buffer is given up - or posted again at once; either
                            // way every buffer stays accounted for
                            if r.is_err() {
                                let (post, pendingc) = with(|w| (posted(w, q), w.personality::<EventSource>().delivered.len()));
                                if post + pendingc + lost_buffers != size {
                                    lost_buffers += 1;
                                } else {
                                    probe("oversized_completion_buffer_reposted");
                                }
                            }
                        } else {
                            delivered_total += 1;
                            match &seen {
                                None => violation("owning-missed-delivery", "poll", format!("device completed event {} but the handler was not called (poll returned {r:?})", rec.n)),
                                Some(s) => {
                                    if *s != rec.bytes {
                                        violation(
                                            "owning-delivery-data",
                                            "poll",
                                            format!("event {} (token {}): handler saw {} bytes {:x?}, device wrote {} bytes {:x?}", rec.n, rec.head, s.len(), &s[..s.len().min(8)], rec.bytes.len(), &rec.bytes[..rec.bytes.len().min(8)]),
                                        );
                                    }
                                }
                            }
                            let want = match mode {
                                0 => Ok(None),
                                1 => Err(Error::InvalidParam),
                                _ => Ok(Some(rec.bytes.clone())),
                            };
                            if r != want && !violated() {
                                violation("owning-poll-result", "poll", format!("poll returned {r:?}, handler's result was {want:?}"));
                            }
                            // re-posted immediately, same token, same buffer
                            let ok = with(|w| {
                                let dqs = &w.dq[q as usize];
                                let newest = dqs.recent.back().cloned();
                                match newest {
                                    Some(c) => {
                                        let ptr = c.elems.first().and_then(|e| w.hal.find_share(e.addr, 1)).map(|s| s.ptr);
                                        (c.head == rec.head, ptr == token_ptr.get(&rec.head).copied(), c.elems.len() == 1 && c.elems[0].write && c.elems[0].len as usize == bufsz)
                                    }
                                    None => (false, false, false),
                                }
                            });
                            if ok != (true, true, true) && !violated() {
                                violation(
                                    "owning-repost",
                                    "poll",
                                    format!("after delivering token {}: re-posted under same token {}, same driver buffer {}, whole buffer device-writable {}", rec.head, ok.0, ok.1, ok.2),
                                );
                            }
                        }
                    }
                }
                // stock level: everything not sitting in the used ring is posted
                let (post, pendingc) = with(|w| (posted(w, q), w.personality::<EventSource>().delivered.len()));
                if post + pendingc + lost_buffers != size && !violated() {
                    violation("owning-stock-level", "poll", format!("{post} buffers posted + {pendingc} completed-unconsumed != queue size {size}"));
                }
                if pendingc == 0 && lost_buffers == 0 && post == size && delivered_total > size as u64 {
                    nontrivial();
                }
                with(|w| w.check_no_lost_wakeup("owning-poll"));
            }
        }
        op_point();
    }
    drop(p);
}

pub fn owning_honest() {
    owning_run(false)
}

/// Variant with a device that now and then reports a length larger than the buffer (no delivery
/// may expose more bytes than the buffer holds).
pub fn owning_lying() {
    owning_run(true)
}

// ---------------------------------------------------------------------------------------------
// VirtIOInput

pub fn input_event(n: u64) -> Vec<u8> {
    let mut b = Vec::with_capacity(8);
    b.extend_from_slice(&((n % 7) as u16 + 1).to_le_bytes());
    b.extend_from_slice(&((n as u16).wrapping_mul(3)).to_le_bytes());
    b.extend_from_slice(&(n as u32 ^ 0xabcd_0000).to_le_bytes());
    b
}

struct InputRun {
    /// long stream: many hundreds of events, so that counters kept per event wrap
    long: bool,
}

impl TransportFn<()> for InputRun {
    fn call<T: Transport + 'static>(self, t: T) {
        let mut input = match Input::<T>::new(t) {
            Ok(i) => i,
            Err(e) => {
                violation("input-new-failed", "new", format!("{e:?}"));
                return;
            }
        };
        with(|w| w.check_no_lost_wakeup("input-new"));
        let n_ops = if self.long { 700 + choose(900) } else { 10 + choose(120) };
        let mut total = 0u64;
        let mut fetched = std::collections::VecDeque::new();
        for _ in 0..n_ops {
            if violated() {
                break;
            }
            if flip(1, 3) {
                let burst = 1 + choose(40);
                with(|w| {
                    w.personality::<EventSource>().budget += burst;
                    w.run_device(burst + 2);
                });
                oplog(|| format!("device may emit {burst} more event(s)"));
            } else {
                // A call may fetch several completed events at once and hand them out one per
                // call: every buffer posted again during the call is one completion consumed, in
                // used-ring order; what was fetched is owed to the caller in that order.
                let avail_before = with(|w| w.avail_idx_mem(0).unwrap_or(0));
                let got = input.pop_pending_event();
                oplog(|| format!("pop_pending_event -> {got:?}"));
                let consumed = with(|w| w.avail_idx_mem(0).unwrap_or(0)).wrapping_sub(avail_before) as usize;
                for _ in 0..consumed {
                    match with(|w| w.personality::<EventSource>().delivered.pop_front()) {
                        Some(r) => fetched.push_back(r),
                        None => {
                            violation("input-spurious-repost", "pop_pending_event", format!("{consumed} buffer(s) were posted during the call but fewer completions were pending"));
                            break;
                        }
                    }
                }
                if consumed > 1 {
                    probe("input_events_fetched_in_batch");
                }
                let pending_at_device = with(|w| w.personality::<EventSource>().delivered.front().cloned());
                match (fetched.pop_front(), got) {
                    (None, None) => {
                        if let Some(rec) = pending_at_device {
                            violation("input-event-lost", "pop_pending_event", format!("event {} pending (token {}) but pop_pending_event returned None", rec.n, rec.head));
                        }
                    }
                    (None, Some(e)) => violation("input-spurious-event", "pop_pending_event", format!("no event pending but got {e:?}")),
                    (Some(rec), None) => violation("input-event-lost", "pop_pending_event", format!("event {} (token {}) was taken from the queue but pop_pending_event returned None", rec.n, rec.head)),
                    (Some(rec), Some(e)) => {
                        total += 1;
                        let want = input_event(rec.n);
                        let got_bytes: Vec<u8> = [e.event_type.to_le_bytes().to_vec(), e.code.to_le_bytes().to_vec(), e.value.to_le_bytes().to_vec()].concat();
                        if want != got_bytes {
                            violation("input-event-data", "pop_pending_event", format!("event {}: device wrote {want:x?}, driver returned {got_bytes:x?}", rec.n));
                        }
                        let (post, pend) = with(|w| (posted(w, 0), w.personality::<EventSource>().delivered.len()));
                        if post + pend != 32 {
                            violation("input-stock-level", "pop_pending_event", format!("{post} posted + {pend} completed-unconsumed != 32"));
                        }
                        if total > 64 && pend == 0 {
                            nontrivial();
                        }
                    }
                }
                with(|w| w.check_no_lost_wakeup("input-pop"));
            }
            op_point();
        }
        drop(input);
    }
}

pub fn input_run() {
    input(false)
}

/// Several hundred events in one run (bursts of every size between drains).
pub fn input_long() {
    input(true)
}

fn input(long: bool) {
    let tk = [TKind::Model, TKind::ModelLegacy, TKind::MmioModern, TKind::Pci, TKind::ModelPciLike][choose(5) as usize];
    crate::scen::queue::draw_device_policy();
    crate::scen::queue::draw_sharing_mode();
    let mut feats = F_VERSION_1 | F_INDIRECT * choose(2) | F_EVENT_IDX * choose(2) | F_ACCESS_PLATFORM * choose(2);
    if tk.legacy() {
        feats &= !F_VERSION_1;
    }
    zoo::setup_device(Kind::Input, feats, Kind::Input.default_config());
    with(|w| {
        let mut d = EventSource::new(0);
        d.payload = Some(input_event);
        w.dev = Some(Box::new(d));
    });
    oplog(|| format!("VirtIOInput over {tk:?} features {feats:#x} policy {:?}", with(|w| (w.cfg.serve, w.cfg.suppress, w.cfg.in_order))));
    if let Err(e) = zoo::with_transport(tk, InputRun { long }) {
        violation("transport-construction-failed", "zoo", e);
    }
}

// ---------------------------------------------------------------------------------------------
// VirtIOSound notifications

pub fn sound_event(n: u64) -> Vec<u8> {
    let code: u32 = [0x1000u32, 0x1001, 0x1100, 0x1101][(n % 4) as usize];
    let mut b = Vec::with_capacity(8);
    b.extend_from_slice(&code.to_le_bytes());
    b.extend_from_slice(&(n as u32).wrapping_mul(2654435761).to_le_bytes());
    b
}

struct SoundRun;

impl TransportFn<()> for SoundRun {
    fn call<T: Transport + 'static>(self, t: T) {
        let mut snd = match Sound::<T>::new(t) {
            Ok(s) => Box::new(s),
            Err(e) => {
                violation("sound-new-failed", "new", format!("{e:?}"));
                return;
            }
        };
        with(|w| w.check_no_lost_wakeup("sound-new"));
        let n_ops = 10 + choose(120);
        let mut total = 0;
        let mut started = false;
        for _ in 0..n_ops {
            if violated() {
                break;
            }
            if flip(1, 8) {
                // a blocking playback call in between: notifications that complete before, during
                // and after it must still come out in completion order
                use virtio_drivers::device::sound::{PcmFeatures, PcmFormat, PcmRate};
                if !started {
                    let r = snd.pcm_set_params(0, 64, 16, PcmFeatures::empty(), 1, PcmFormat::U8, PcmRate::Rate8000).and_then(|_| snd.pcm_prepare(0)).and_then(|_| snd.pcm_start(0));
                    if let Err(e) = r {
                        violation("sound-setup-failed", "pcm_start", format!("{e:?}"));
                        break;
                    }
                    started = true;
                }
                let during = choose(3);
                with(|w| w.personality::<crate::devices::sound::SoundDev>().events.budget += during);
                let frames = vec![7u8; 1 + choose(100) as usize];
                let r = snd.pcm_xfer(0, &frames);
                oplog(|| format!("pcm_xfer({} bytes) -> {r:?} ({during} notification(s) allowed meanwhile)", frames.len()));
                if let Err(e) = r {
                    violation("sound-xfer-failed", "pcm_xfer", format!("{e:?}"));
                }
            } else if flip(1, 3) {
                let burst = 1 + choose(40);
                with(|w| {
                    w.personality::<crate::devices::sound::SoundDev>().events.budget += burst;
                    w.run_device(burst + 2);
                });
            } else {
                let expect = with(|w| w.personality::<crate::devices::sound::SoundDev>().events.delivered.front().cloned());
                let got = snd.latest_notification();
                oplog(|| format!("latest_notification -> {got:?}"));
                match (expect, got) {
                    (None, Ok(None)) => {}
                    (None, g) => violation("sound-spurious-notification", "latest_notification", format!("nothing pending but got {g:?}")),
                    (Some(rec), g) => {
                        with(|w| {
                            w.personality::<crate::devices::sound::SoundDev>().events.delivered.pop_front();
                        });
                        total += 1;
                        let want = sound_event(rec.n);
                        let data = u32::from_le_bytes(want[4..8].try_into().unwrap());
                        match g {
                            Ok(Some(n)) => {
                                let code = u32::from_le_bytes(want[0..4].try_into().unwrap());
                                if n.data() != data || n.notification_type() as u32 != code {
                                    violation("sound-notification-data", "latest_notification", format!("event {}: device wrote code {code:#x} data {data:#x}, driver returned {n:?}", rec.n));
                                }
                            }
                            other => violation("sound-notification-lost", "latest_notification", format!("event {} pending but got {other:?}", rec.n)),
                        }
                        let (post, pend) = with(|w| (posted(w, 1), w.personality::<crate::devices::sound::SoundDev>().events.delivered.len()));
                        if post + pend != 32 {
                            violation("sound-stock-level", "latest_notification", format!("{post} posted + {pend} completed-unconsumed != 32"));
                        }
                        if total > 64 && pend == 0 {
                            nontrivial();
                        }
                    }
                }
                with(|w| w.check_no_lost_wakeup("sound-poll"));
            }
            op_point();
        }
        drop(snd);
    }
}

pub fn sound_run() {
    let tk = [TKind::Model, TKind::ModelLegacy, TKind::MmioModern, TKind::Pci][choose(4) as usize];
    crate::scen::queue::draw_device_policy();
    crate::scen::queue::draw_sharing_mode();
    let mut feats = F_VERSION_1 | F_INDIRECT * choose(2) | F_EVENT_IDX * choose(2) | F_ACCESS_PLATFORM * choose(2);
    if tk.legacy() {
        feats &= !F_VERSION_1;
    }
    zoo::setup_device(Kind::Sound, feats, Kind::Sound.default_config());
    with(|w| {
        let mut d = crate::devices::sound::SoundDev::new();
        d.events.payload = Some(sound_event);
        w.dev = Some(Box::new(d));
    });
    oplog(|| format!("VirtIOSound notifications over {tk:?} features {feats:#x}"));
    if let Err(e) = zoo::with_transport(tk, SoundRun) {
        violation("transport-construction-failed", "zoo", e);
    }
}
