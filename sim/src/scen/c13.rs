//! C13: configuration-space access is bounds-checked (real MMIO and PCI transports, offsets up
//! to usize::MAX) and multi-field reads are never torn (a scheduler-controlled configuration
//! agent installs new versions between the individual register reads).

use crate::mmio::MmioAcc;
use crate::pcidev;
use crate::world::*;
use crate::zoo::{self, Kind, TKind, TransportFn};
use virtio_drivers::Error;
use virtio_drivers::transport::Transport;
use zerocopy::byteorder::{LittleEndian, U64};

// ---------------------------------------------------------------------------------------------
// (a) bounds

struct Bounds {
    /// bytes of configuration the device really has
    window: usize,
    /// largest window the transport may legitimately assume (PCI rounds down to whole words)
    must_succeed_within: usize,
    has_config: bool,
    pci: bool,
}

fn pick_offset(window: usize, size: usize, align: usize) -> usize {
    let raw = match choose(10) {
        0 => 0,
        1 => window.saturating_sub(size),
        2 => window.saturating_sub(size) + align,
        3 => window,
        4 => usize::MAX - choose(64) as usize,
        5 => usize::MAX - size + 1,
        6 => (usize::MAX - size).wrapping_add(align),
        7 => 1usize << (12 + choose(51)),
        8 => choose(window as u64 + 8) as usize,
        _ => choose(u64::MAX) as usize,
    };
    raw / align * align
}

fn config_bytes_touched(tr: &[MmioAcc], pci: bool, cfg_base: u64) -> Option<Vec<(u64, u64)>> {
    // returns byte ranges relative to the configuration space, or None if an access was elsewhere
    let mut v = Vec::new();
    for a in tr {
        let off = if pci {
            if a.window != 'B' || a.off < cfg_base {
                return None;
            }
            a.off - cfg_base
        } else {
            if a.window != 'M' || a.off < 0x100 {
                return None;
            }
            a.off - 0x100
        };
        v.push((off, off + a.width as u64));
    }
    Some(v)
}

impl TransportFn<()> for Bounds {
    fn call<T: Transport + 'static>(self, mut t: T) {
        let cfg_virt_base: u64 = if self.pci {
            // virtual offset of the device-config window inside the 'B' window: found from the maps
            with(|w| {
                let p = w.bus.pci.as_ref().unwrap();
                let f = &p.funcs[&pcidev::VIRTIO_DF];
                let v = f.virtio.as_ref().unwrap();
                match v.devcfg {
                    Some(win) => {
                        let (ba, _) = f.mem_bar(win.bar as usize).unwrap();
                        let paddr = ba + win.off;
                        p.maps.iter().find(|(pa, _, _)| *pa == paddr).map(|(_, _, virt)| (*virt - crate::mmio::BAR_VIRT_BASE) as u64).unwrap_or(0)
                    }
                    None => 0,
                }
            })
        } else {
            0
        };
        for _ in 0..(4 + choose(24)) {
            if violated() {
                break;
            }
            macro_rules! one {
                ($ty:ty, $size:expr, $align:expr, $mk:expr) => {{
                    let size: usize = $size;
                    let align: usize = $align;
                    let off = pick_offset(self.window, size, align);
                    let write = flip(1, 3);
                    let inside_real = (off as u128) + (size as u128) <= self.window as u128;
                    let must_ok = self.has_config && (off as u128) + (size as u128) <= self.must_succeed_within as u128;
                    with(|w| w.bus.capture = Some(Vec::new()));
                    let val: $ty = $mk;
                    let r: Result<Result<Option<$ty>, Error>, (String, String)> = crate::runner::guarded(|| {
                        if write { t.write_config_space::<$ty>(off, val).map(|_| None) } else { t.read_config_space::<$ty>(off).map(Some) }
                    });
                    let tr = with(|w| w.bus.capture.take().unwrap_or_default());
                    let what = format!("{}_config_space::<{}>({off:#x}) with a {}-byte window", if write { "write" } else { "read" }, stringify!($ty), self.window);
                    oplog(|| format!("{what} -> {:?}", r.as_ref().map(|x| x.as_ref().map(|_| "Ok").map_err(|e| *e))));
                    match r {
                        Err((msg, loc)) => violation("config-bounds-panic", "config_space", format!("{what}: panic {msg} at {loc}")),
                        Ok(Ok(v)) => {
                            if !inside_real {
                                violation("config-access-outside-window", "config_space", format!("{what} succeeded although it does not lie inside the window"));
                            } else {
                                nontrivial();
                                match config_bytes_touched(&tr, self.pci, cfg_virt_base) {
                                    None => violation("config-access-elsewhere", "config_space", format!("{what} touched addresses outside the configuration space: {tr:?}")),
                                    Some(ranges) => {
                                        let mut covered = vec![false; size];
                                        let mut ok = true;
                                        for (a, b) in ranges {
                                            for x in a..b {
                                                if x < off as u64 || x >= (off + size) as u64 {
                                                    ok = false;
                                                } else {
                                                    covered[(x - off as u64) as usize] = true;
                                                }
                                            }
                                        }
                                        if !ok || covered.iter().any(|c| !c) {
                                            violation("config-access-bytes", "config_space", format!("{what} must touch exactly bytes {off}..{}; accesses: {tr:?}", off + size));
                                        }
                                    }
                                }
                                if let Some(v) = v {
                                    let want = with(|w| w.tr.config[off..off + size].to_vec());
                                    if zerocopy::IntoBytes::as_bytes(&v) != &want[..] {
                                        violation("config-value", "config_space", format!("{what} returned {:x?}, device holds {want:x?}", zerocopy::IntoBytes::as_bytes(&v)));
                                    }
                                } else {
                                    let got = with(|w| w.tr.config[off..off + size].to_vec());
                                    if zerocopy::IntoBytes::as_bytes(&val) != &got[..] {
                                        violation("config-value", "config_space", format!("{what}: device received {got:x?}"));
                                    }
                                }
                            }
                        }
                        Ok(Err(e)) => {
                            let want = if self.has_config { Error::ConfigSpaceTooSmall } else { Error::ConfigSpaceMissing };
                            if must_ok {
                                violation("config-access-refused", "config_space", format!("{what} failed with {e:?} although it lies wholly inside the window"));
                            } else if e != want && !inside_real {
                                violation("config-error-kind", "config_space", format!("{what} failed with {e:?}, expected {want:?}"));
                            }
                            if !tr.is_empty() {
                                violation("config-access-on-failure", "config_space", format!("{what} failed but performed accesses {tr:?}"));
                            }
                        }
                    }
                }};
            }
            let seed = choose(256) as u8;
            match choose(7) {
                0 => one!(u8, 1, 1, seed),
                1 => one!(u16, 2, 2, seed as u16 * 257),
                2 => one!(u32, 4, 4, seed as u32 * 0x0101_0101),
                3 => one!([u8; 6], 6, 1, [seed; 6]),
                4 => one!([u8; 16], 16, 1, [seed; 16]),
                5 => one!(U64<LittleEndian>, 8, 1, U64::new(seed as u64 * 0x0101_0101_0101_0101)),
                _ => one!([u8; 3], 3, 1, [seed; 3]),
            }
        }
        drop(t);
    }
}

pub fn bounds() {
    let tk = [TKind::MmioModern, TKind::MmioLegacy, TKind::SomeMmio, TKind::Pci, TKind::SomePci][choose(5) as usize];
    let pci = matches!(tk, TKind::Pci | TKind::SomePci);
    let clen = [0usize, 1, 2, 3, 4, 7, 8, 12, 20, 64, 256][choose(11) as usize];
    let has_config = !(pci && flip(1, 5));
    zoo::setup_device(Kind::Blk, F_VERSION_1, (0..clen).map(|i| (i as u8).wrapping_mul(37).wrapping_add(11)).collect());
    with(|w| {
        w.tr.has_config = has_config;
        w.cfg.device_active = false;
    });
    oplog(|| format!("config bounds over {tk:?}, {clen} bytes of configuration, capability present: {has_config}"));
    let exact = pci && clen >= 4 && flip(1, 2);
    with(|w| w.bus.pci.get_or_insert_with(Default::default).exact_cfg_len = exact);
    let (window, must) = if exact {
        // the capability advertises exactly the configuration length; the transport may only
        // rely on the whole words inside it
        (clen, clen / 4 * 4)
    } else if pci {
        // the function advertises a window of whole words (at least one)
        let w4 = ((clen + 3) & !3).max(4);
        (w4, w4)
    } else {
        (clen, clen)
    };
    if let Err(e) = zoo::with_transport(tk, Bounds { window: if has_config { window } else { 0 }, must_succeed_within: must, has_config, pci }) {
        violation("transport-construction-failed", "zoo", e);
    }
}

// ---------------------------------------------------------------------------------------------
// (b) torn reads

const TOTAL: usize = 64;

fn version_config(kind: Kind, v: u64) -> Vec<u8> {
    let mut c = vec![0u8; TOTAL];
    match kind {
        Kind::Blk => {
            c[0..4].copy_from_slice(&(0x1000_0000u32 + v as u32 * 0x111).to_le_bytes());
            c[4..8].copy_from_slice(&(0x2000u32 + v as u32).to_le_bytes());
        }
        Kind::Socket => {
            c[0..4].copy_from_slice(&(0x0000_0300u32 + v as u32 * 0x10001).to_le_bytes());
            c[4..8].copy_from_slice(&(0x7000u32 + v as u32).to_le_bytes());
        }
        Kind::Console => {
            c[0..2].copy_from_slice(&(100u16 + v as u16).to_le_bytes());
            c[2..4].copy_from_slice(&(200u16 + v as u16).to_le_bytes());
            c[4..8].copy_from_slice(&1u32.to_le_bytes());
        }
        Kind::NetRaw => {
            for b in c[0..6].iter_mut() {
                *b = 0x10 + v as u8;
            }
            c[6] = 1;
        }
        _ => {
            let n = 3 + v as usize * 2;
            c[0..2].copy_from_slice(&(n as u16).to_le_bytes());
            for b in c[2..2 + n].iter_mut() {
                *b = b'a' + v as u8;
            }
        }
    }
    c
}

#[derive(Debug, Clone, PartialEq)]
enum Val {
    U64(u64),
    Pair(u16, u16),
    Mac([u8; 6]),
    Tag(String),
}

fn value_of(kind: Kind, c: &[u8]) -> Val {
    match kind {
        Kind::Blk | Kind::Socket => Val::U64(u64::from_le_bytes(c[0..8].try_into().unwrap())),
        Kind::Console => Val::Pair(u16::from_le_bytes([c[0], c[1]]), u16::from_le_bytes([c[2], c[3]])),
        Kind::NetRaw => Val::Mac(c[0..6].try_into().unwrap()),
        _ => {
            let n = u16::from_le_bytes([c[0], c[1]]) as usize;
            Val::Tag(String::from_utf8_lossy(&c[2..2 + n]).to_string())
        }
    }
}

struct Torn {
    kind: Kind,
}

impl TransportFn<()> for Torn {
    fn call<T: Transport + 'static>(self, t: T) {
        let site = zoo::kind_name(self.kind);
        let r = crate::runner::guarded(|| -> Result<(Val, zoo::AnyDriver<T>), Error> {
            let d = zoo::construct(self.kind, t)?;
            let v = match &d {
                zoo::AnyDriver::Blk(b) => Val::U64(b.capacity()),
                zoo::AnyDriver::Socket(s) => Val::U64(s.guest_cid()),
                zoo::AnyDriver::Console(c) => {
                    let s = c.size()?.ok_or(Error::Unsupported)?;
                    Val::Pair(s.columns, s.rows)
                }
                zoo::AnyDriver::NetRaw(n) => Val::Mac(n.mac_address()),
                zoo::AnyDriver::P9(p) => Val::Tag(p.mount_tag().to_string()),
                _ => unreachable!(),
            };
            Ok((v, d))
        });
        let (exposed, left) = with(|w| {
            let mut e = w.cfg_exposed.clone();
            if e.is_empty() {
                e.push(w.tr.config.clone());
            }
            (e, w.cfg_versions.len())
        });
        match r {
            Err((msg, loc)) => violation("config-read-panicked", site, format!("{msg} at {loc}")),
            Ok(Err(e)) => violation("config-read-failed", site, format!("{e:?} although every configuration version is well-formed")),
            Ok(Ok((v, d))) => {
                let legal: Vec<Val> = exposed.iter().map(|c| value_of(self.kind, c)).collect();
                oplog(|| format!("driver read {v:?}; device exposed {legal:?} ({left} versions never installed)"));
                if !legal.contains(&v) {
                    violation(
                        "torn-config-read",
                        site,
                        format!("driver assembled {v:?}, which the device never exposed under a single configuration generation; exposed versions: {legal:?}"),
                    );
                }
                if exposed.len() >= 2 {
                    nontrivial();
                    probe("read_consistent_retried");
                }
                drop(d);
            }
        }
    }
}

pub fn torn() {
    let kind = [Kind::Blk, Kind::Socket, Kind::Console, Kind::NetRaw, Kind::P9][choose(5) as usize];
    torn_kind(kind);
}

/// Block capacity under a device that changes its configuration during construction (C14:
/// "capacity ... equal the device's configuration").
pub fn torn_blk() {
    torn_kind(Kind::Blk);
}

/// 9P mount tag under a device that changes its configuration during construction (C20:
/// "returned values ... mount tag equal what the device reported").
pub fn torn_9p() {
    torn_kind(Kind::P9);
}

fn torn_kind(kind: Kind) {
    let tk = [TKind::Model, TKind::ModelPciLike, TKind::MmioModern, TKind::SomeMmio, TKind::Pci, TKind::SomePci][choose(6) as usize];
    let feats = F_VERSION_1 | F_INDIRECT * choose(2) | F_EVENT_IDX * choose(2) | kind.implemented_device_bits() & !(1 << 5);
    zoo::setup_device(kind, feats, version_config(kind, 0));
    zoo::install_personality(kind);
    // up to 4 further versions, or (one run in four) up to 14 with an eager agent: retry loops
    // must not give up and return an unchecked value after a few changes in a row
    let many = flip(1, 4);
    let n = if many { 5 + choose(10) } else { choose(5) };
    with(|w| {
        w.cfg_versions = (1..=n).map(|v| version_config(kind, v)).collect();
        w.cfg_agent_eager = many;
    });
    oplog(|| format!("{} over {tk:?}; the device may switch through {n} further configuration versions at any configuration access", zoo::kind_name(kind)));
    if let Err(e) = zoo::with_transport(tk, Torn { kind }) {
        violation("transport-construction-failed", "zoo", e);
    }
}
