//! One integer decides everything: PRNG + choice tape.
//!
//! Every decision of a run (configuration, generated operations, scheduler choices, faults) is
//! drawn through [`Tape::choose`]. In generation mode the value comes from a xoshiro256** stream
//! seeded from the run seed and is appended to the tape; in replay mode the value is read from a
//! given tape (clamped into range; an exhausted tape yields 0, which by convention is always the
//! "simplest" alternative: device does nothing extra, smallest size, no fault). A run is thus a
//! pure function of (scenario, tape) and shrinking is done on the tape alone.

#[derive(Clone, Debug)]
pub struct Xoshiro {
    s: [u64; 4],
}

pub fn splitmix64(x: &mut u64) -> u64 {
    *x = x.wrapping_add(0x9E37_79B9_7F4A_7C15);
    let mut z = *x;
    z = (z ^ (z >> 30)).wrapping_mul(0xBF58_476D_1CE4_E5B9);
    z = (z ^ (z >> 27)).wrapping_mul(0x94D0_49BB_1331_11EB);
    z ^ (z >> 31)
}

/// Mixes several integers into one seed (used to derive per-run seeds from VERIF_SEED).
pub fn mix(parts: &[u64]) -> u64 {
    let mut h = 0x243F_6A88_85A3_08D3u64;
    for &p in parts {
        let mut x = h ^ p.wrapping_mul(0x9E37_79B9_7F4A_7C15);
        h = splitmix64(&mut x);
    }
    h
}

impl Xoshiro {
    pub fn new(seed: u64) -> Self {
        let mut x = seed;
        let s = [
            splitmix64(&mut x),
            splitmix64(&mut x),
            splitmix64(&mut x),
            splitmix64(&mut x),
        ];
        Xoshiro { s }
    }
    pub fn next(&mut self) -> u64 {
        let r = self.s[1].wrapping_mul(5).rotate_left(7).wrapping_mul(9);
        let t = self.s[1] << 17;
        self.s[2] ^= self.s[0];
        self.s[3] ^= self.s[1];
        self.s[1] ^= self.s[2];
        self.s[0] ^= self.s[3];
        self.s[2] ^= t;
        self.s[3] = self.s[3].rotate_left(45);
        r
    }
}

#[derive(Clone, Debug)]
pub struct Tape {
    gen_: Option<Xoshiro>,
    /// Values drawn so far (generation) or values to replay.
    pub vals: Vec<u64>,
    pub pos: usize,
    /// Values forced onto the front of a generated tape (grid enumeration: run i of a batch gets
    /// its grid cell as first choice).
    pub forced: std::collections::VecDeque<u64>,
    /// Hard cap on the number of draws in one run; afterwards every draw returns 0.
    pub cap: usize,
}

impl Tape {
    pub fn generate(seed: u64) -> Self {
        Tape {
            gen_: Some(Xoshiro::new(seed)),
            vals: Vec::new(),
            pos: 0,
            forced: Default::default(),
            cap: 4_000_000,
        }
    }
    pub fn generate_forced(seed: u64, forced: Vec<u64>) -> Self {
        let mut t = Self::generate(seed);
        t.forced = forced.into();
        t
    }
    pub fn replay(vals: Vec<u64>) -> Self {
        Tape {
            gen_: None,
            vals,
            pos: 0,
            forced: Default::default(),
            cap: 4_000_000,
        }
    }
    pub fn is_replay(&self) -> bool {
        self.gen_.is_none()
    }
    /// A value in `0..n` (`n >= 1`). The reduced value is what is recorded on the tape, so tapes
    /// are readable and shrink well.
    pub fn choose(&mut self, n: u64) -> u64 {
        let n = n.max(1);
        if self.pos >= self.cap {
            self.pos += 1;
            return 0;
        }
        let v = match &mut self.gen_ {
            Some(g) => {
                let v = match self.forced.pop_front() {
                    Some(f) => f % n,
                    None => g.next() % n,
                };
                self.vals.push(v);
                v
            }
            None => self.vals.get(self.pos).copied().unwrap_or(0) % n,
        };
        self.pos += 1;
        v
    }
    /// A full 64-bit value.
    pub fn raw(&mut self) -> u64 {
        self.choose(u64::MAX)
    }
    /// The part of the tape that was actually consumed.
    pub fn consumed(&self) -> Vec<u64> {
        let n = self.pos.min(self.vals.len());
        self.vals[..n].to_vec()
    }
}
