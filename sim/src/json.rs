//! Minimal JSON value, writer and parser (no external crates available offline beyond the
//! repository's own dependencies).

use std::collections::BTreeMap;
use std::fmt::Write;

#[derive(Clone, Debug, PartialEq)]
pub enum J {
    Null,
    Bool(bool),
    Int(i128),
    Num(f64),
    Str(String),
    Arr(Vec<J>),
    Obj(Vec<(String, J)>),
}

impl J {
    pub fn obj(v: Vec<(&str, J)>) -> J {
        J::Obj(v.into_iter().map(|(k, v)| (k.to_string(), v)).collect())
    }
    pub fn s(x: impl Into<String>) -> J {
        J::Str(x.into())
    }
    pub fn u(x: u64) -> J {
        J::Int(x as i128)
    }
    pub fn arr_str(v: &[String]) -> J {
        J::Arr(v.iter().map(|s| J::Str(s.clone())).collect())
    }
    pub fn map_u64(m: &BTreeMap<&'static str, u64>) -> J {
        J::Obj(m.iter().map(|(k, v)| (k.to_string(), J::u(*v))).collect())
    }
    pub fn get(&self, k: &str) -> Option<&J> {
        match self {
            J::Obj(v) => v.iter().find(|(kk, _)| kk == k).map(|(_, v)| v),
            _ => None,
        }
    }
    pub fn as_str(&self) -> Option<&str> {
        match self {
            J::Str(s) => Some(s),
            _ => None,
        }
    }
    pub fn as_u64(&self) -> Option<u64> {
        match self {
            J::Int(i) => Some(*i as u64),
            J::Num(f) => Some(*f as u64),
            _ => None,
        }
    }
    pub fn as_arr(&self) -> Option<&Vec<J>> {
        match self {
            J::Arr(v) => Some(v),
            _ => None,
        }
    }
    pub fn to_string_pretty(&self) -> String {
        let mut s = String::new();
        self.write(&mut s, 0);
        s.push('\n');
        s
    }
    fn write(&self, out: &mut String, ind: usize) {
        match self {
            J::Null => out.push_str("null"),
            J::Bool(b) => out.push_str(if *b { "true" } else { "false" }),
            J::Int(i) => {
                let _ = write!(out, "{i}");
            }
            J::Num(f) => {
                if f.is_finite() {
                    let _ = write!(out, "{:.3}", f);
                } else {
                    out.push('0');
                }
            }
            J::Str(s) => esc(s, out),
            J::Arr(v) => {
                if v.is_empty() {
                    out.push_str("[]");
                    return;
                }
                let simple = v.iter().all(|x| matches!(x, J::Int(_) | J::Num(_) | J::Bool(_)));
                if simple {
                    out.push('[');
                    for (i, x) in v.iter().enumerate() {
                        if i > 0 {
                            out.push_str(", ");
                        }
                        x.write(out, 0);
                    }
                    out.push(']');
                    return;
                }
                out.push_str("[\n");
                for (i, x) in v.iter().enumerate() {
                    pad(out, ind + 1);
                    x.write(out, ind + 1);
                    if i + 1 < v.len() {
                        out.push(',');
                    }
                    out.push('\n');
                }
                pad(out, ind);
                out.push(']');
            }
            J::Obj(v) => {
                if v.is_empty() {
                    out.push_str("{}");
                    return;
                }
                out.push_str("{\n");
                for (i, (k, x)) in v.iter().enumerate() {
                    pad(out, ind + 1);
                    esc(k, out);
                    out.push_str(": ");
                    x.write(out, ind + 1);
                    if i + 1 < v.len() {
                        out.push(',');
                    }
                    out.push('\n');
                }
                pad(out, ind);
                out.push('}');
            }
        }
    }
}

fn pad(out: &mut String, n: usize) {
    for _ in 0..n {
        out.push(' ');
    }
}

fn esc(s: &str, out: &mut String) {
    out.push('"');
    for c in s.chars() {
        match c {
            '"' => out.push_str("\\\""),
            '\\' => out.push_str("\\\\"),
            '\n' => out.push_str("\\n"),
            '\r' => out.push_str("\\r"),
            '\t' => out.push_str("\\t"),
            c if (c as u32) < 0x20 => {
                let _ = write!(out, "\\u{:04x}", c as u32);
            }
            c => out.push(c),
        }
    }
    out.push('"');
}

pub fn parse(s: &str) -> Result<J, String> {
    let b = s.as_bytes();
    let mut p = 0;
    let v = val(b, &mut p)?;
    ws(b, &mut p);
    if p != b.len() {
        return Err(format!("trailing data at {p}"));
    }
    Ok(v)
}

fn ws(b: &[u8], p: &mut usize) {
    while *p < b.len() && (b[*p] as char).is_ascii_whitespace() {
        *p += 1;
    }
}

fn val(b: &[u8], p: &mut usize) -> Result<J, String> {
    ws(b, p);
    if *p >= b.len() {
        return Err("eof".into());
    }
    match b[*p] {
        b'{' => {
            *p += 1;
            let mut v = Vec::new();
            loop {
                ws(b, p);
                if *p < b.len() && b[*p] == b'}' {
                    *p += 1;
                    break;
                }
                let k = match val(b, p)? {
                    J::Str(s) => s,
                    _ => return Err("key".into()),
                };
                ws(b, p);
                if *p >= b.len() || b[*p] != b':' {
                    return Err("colon".into());
                }
                *p += 1;
                let x = val(b, p)?;
                v.push((k, x));
                ws(b, p);
                if *p < b.len() && b[*p] == b',' {
                    *p += 1;
                }
            }
            Ok(J::Obj(v))
        }
        b'[' => {
            *p += 1;
            let mut v = Vec::new();
            loop {
                ws(b, p);
                if *p < b.len() && b[*p] == b']' {
                    *p += 1;
                    break;
                }
                v.push(val(b, p)?);
                ws(b, p);
                if *p < b.len() && b[*p] == b',' {
                    *p += 1;
                }
            }
            Ok(J::Arr(v))
        }
        b'"' => {
            *p += 1;
            let mut s = Vec::new();
            while *p < b.len() && b[*p] != b'"' {
                if b[*p] == b'\\' {
                    *p += 1;
                    match b.get(*p) {
                        Some(b'n') => s.push(b'\n'),
                        Some(b't') => s.push(b'\t'),
                        Some(b'r') => s.push(b'\r'),
                        Some(b'u') => {
                            let h = std::str::from_utf8(&b[*p + 1..*p + 5]).map_err(|e| e.to_string())?;
                            let c = u32::from_str_radix(h, 16).map_err(|e| e.to_string())?;
                            let mut buf = [0u8; 4];
                            s.extend_from_slice(char::from_u32(c).unwrap_or('?').encode_utf8(&mut buf).as_bytes());
                            *p += 4;
                        }
                        Some(c) => s.push(*c),
                        None => return Err("eof in string".into()),
                    }
                    *p += 1;
                } else {
                    s.push(b[*p]);
                    *p += 1;
                }
            }
            *p += 1;
            Ok(J::Str(String::from_utf8_lossy(&s).into_owned()))
        }
        b't' => {
            *p += 4;
            Ok(J::Bool(true))
        }
        b'f' => {
            *p += 5;
            Ok(J::Bool(false))
        }
        b'n' => {
            *p += 4;
            Ok(J::Null)
        }
        _ => {
            let st = *p;
            while *p < b.len() && (b[*p] == b'-' || b[*p] == b'+' || b[*p] == b'.' || b[*p] == b'e' || b[*p] == b'E' || b[*p].is_ascii_digit()) {
                *p += 1;
            }
            let t = std::str::from_utf8(&b[st..*p]).map_err(|e| e.to_string())?;
            if let Ok(i) = t.parse::<i128>() {
                Ok(J::Int(i))
            } else {
                t.parse::<f64>().map(J::Num).map_err(|e| format!("number {t:?}: {e}"))
            }
        }
    }
}
