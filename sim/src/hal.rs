//! SimHal: the simulated platform layer. Bounces every shared buffer to a distinct device address,
//! hands out DMA memory at device addresses that never equal the virtual address, keeps a ledger
//! and checks it online, and can make the k-th DMA allocation fail.

use crate::world::{self, Dir, HalEv, Share, DmaRegion, PAGE};
use core::ptr::NonNull;
use std::alloc::{Layout, alloc_zeroed, dealloc};
use virtio_drivers::{BufferDirection, Hal, PhysAddr};

pub struct SimHal;

fn dir_of(d: BufferDirection) -> Dir {
    match d {
        BufferDirection::DriverToDevice => Dir::DriverToDevice,
        BufferDirection::DeviceToDriver => Dir::DeviceToDriver,
        BufferDirection::Both => Dir::Both,
    }
}

// SAFETY: dma_alloc returns page-aligned, zeroed, unaliased host memory that stays valid until
// dma_dealloc; mmio_phys_to_virt returns pointers into a window that is never dereferenced
// (all MMIO goes through the custom-mmio seam).
unsafe impl Hal for SimHal {
    fn dma_alloc(pages: usize, direction: BufferDirection, ap: bool) -> (PhysAddr, NonNull<u8>) {
        world::with(|w| {
            w.hal.alloc_calls += 1;
            let dir = dir_of(direction);
            if w.hal.fail_alloc_at == Some(w.hal.alloc_calls) {
                *w.stats.faults.entry("dma_alloc_fail").or_insert(0) += 1;
                w.ev(0x60, pages as u64, 0);
                w.hal_event(HalEv::Alloc { paddr: 0, vaddr: 0, pages, dir, ap, failed: true });
                return (0, NonNull::dangling());
            }
            let bytes = pages.max(1) * PAGE as usize;
            let layout = Layout::from_size_align(bytes, PAGE as usize).unwrap();
            // SAFETY: non-zero size.
            let p = unsafe { alloc_zeroed(layout) };
            let vaddr = NonNull::new(p).expect("host allocation failed");
            let paddr = w.hal.next_dma;
            w.hal.next_dma += (pages as u64 + 1) * PAGE;
            w.hal.seq += 1;
            let seq = w.hal.seq;
            w.hal.dma.insert(
                paddr,
                DmaRegion { paddr, vaddr: p as usize, pages, dir, ap, seq },
            );
            w.hal.n_alloc += 1;
            w.ev(0x61, pages as u64, paddr);
            w.hal_event(HalEv::Alloc { paddr, vaddr: p as usize, pages, dir, ap, failed: false });
            (paddr, vaddr)
        })
    }

    unsafe fn dma_dealloc(paddr: PhysAddr, vaddr: NonNull<u8>, pages: usize, ap: bool) -> i32 {
        world::with(|w| {
            let v = vaddr.as_ptr() as usize;
            w.ev(0x62, pages as u64, paddr);
            let ok = match w.hal.dma.get(&paddr) {
                Some(r) => r.vaddr == v && r.pages == pages && r.ap == ap,
                None => false,
            };
            w.hal_event(HalEv::Dealloc { paddr, vaddr: v, pages, ap, ok });
            if !ok {
                let what = match w.hal.dma.get(&paddr) {
                    Some(r) => format!(
                        "live region has pages={} access_platform={} vaddr_matches={}",
                        r.pages,
                        r.ap,
                        r.vaddr == v
                    ),
                    None => {
                        if w.hal.retired_dma.iter().any(|(p, _)| *p == paddr) {
                            "region was already deallocated (double free)".to_string()
                        } else {
                            "no such region".to_string()
                        }
                    }
                };
                w.violation(
                    "dma-dealloc-mismatch",
                    "dma_dealloc",
                    format!("dma_dealloc(paddr={paddr:#x}, pages={pages}, access_platform={ap}): {what}"),
                );
                return 0;
            }
            // C09 monitor: queue memory of a live queue must not be released.
            let len = pages as u64 * PAGE;
            let regs: Vec<_> = w.tr.queues.iter().cloned().enumerate().collect();
            for (qi, q) in regs {
                if !w.tr.live(qi as u16) {
                    continue;
                }
                let n = q.size as u64;
                let areas = [(q.desc, 16 * n), (q.driver, 6 + 2 * n), (q.device, 6 + 8 * n)];
                if areas.iter().any(|(a, l)| *a < paddr + len && paddr < *a + *l) {
                    w.violation(
                        "live-queue-memory-freed",
                        &format!("q{qi}"),
                        format!(
                            "dma_dealloc(paddr={paddr:#x}, pages={pages}) releases memory of queue {qi} \
                             while the device is live on it (DRIVER_OK set, queue enabled, no reset)"
                        ),
                    );
                }
            }
            let pins: Vec<(u64, u64, &'static str)> = w.hal.pinned.iter().map(|(a, (l, y))| (*a, *l, *y)).collect();
            for (a, l, why) in pins {
                if a < paddr + len && paddr < a + l && w.hal.pin_check {
                    w.violation(
                        "pinned-dma-freed",
                        "dma_dealloc",
                        format!("dma_dealloc(paddr={paddr:#x}, pages={pages}) releases memory the device still uses as {why} ({a:#x}+{l}) and the device was not reset"),
                    );
                    w.hal.pinned.remove(&a);
                }
            }
            let r = w.hal.dma.remove(&paddr).unwrap();
            if w.hal.retired_dma.len() < 4096 {
                w.hal.retired_dma.push((paddr, len));
            }
            w.hal.n_dealloc += 1;
            let layout = Layout::from_size_align(pages.max(1) * PAGE as usize, PAGE as usize).unwrap();
            // SAFETY: allocated in dma_alloc with the same layout; removed from the ledger, so
            // nothing in the harness refers to it any more.
            unsafe { dealloc(r.vaddr as *mut u8, layout) };
            0
        })
    }

    unsafe fn mmio_phys_to_virt(paddr: PhysAddr, size: usize) -> NonNull<u8> {
        world::with(|w| {
            w.ev(0x63, size as u64, paddr);
            w.hal.mmio_maps.push((paddr, size));
            w.hal_event(HalEv::MmioMap { paddr, size });
            let v = match w.hal.mmio_virt_of {
                Some(f) => f(paddr, size),
                None => crate::pcidev::map_window(w, paddr, size),
            };
            NonNull::new(v as *mut u8).unwrap()
        })
    }

    unsafe fn share(buffer: NonNull<[u8]>, direction: BufferDirection, ap: bool) -> PhysAddr {
        world::with(|w| {
            let dir = dir_of(direction);
            let len = buffer.len();
            let ptr = buffer.as_ptr() as *mut u8 as usize;
            if dir == Dir::Both {
                w.violation("share-direction-both", "share", format!("share(len={len}) with direction Both"));
            }
            if len == 0 {
                w.violation("share-empty", "share", "share of an empty buffer".into());
            }
            let paddr = w.hal.next_share;
            w.hal.next_share += ((len as u64 + 15) & !15) + 16;
            // Bounce: the device only ever sees this copy. Direct: it sees the buffer itself.
            let bounce = if w.hal.bounce {
                let mut b = vec![0u8; len];
                // SAFETY: caller guarantees the buffer is valid for `len` bytes.
                unsafe { std::ptr::copy_nonoverlapping(ptr as *const u8, b.as_mut_ptr(), len) };
                Some(b)
            } else {
                None
            };
            w.hal.seq += 1;
            let seq = w.hal.seq;
            w.hal.shares.insert(
                paddr,
                Share { paddr, ptr, len, dir, ap, bounce, seq, posted_on: None, last_queue: None, dev_wrote: false },
            );
            w.hal.n_share += 1;
            w.ev(0x64, len as u64, paddr);
            w.hal_event(HalEv::Share { paddr, ptr, len, dir, ap });
            paddr
        })
    }

    unsafe fn unshare(paddr: PhysAddr, buffer: NonNull<[u8]>, direction: BufferDirection, ap: bool) {
        world::with(|w| {
            let dir = dir_of(direction);
            let len = buffer.len();
            let ptr = buffer.as_ptr() as *mut u8 as usize;
            w.ev(0x65, len as u64, paddr);
            let ok = match w.hal.shares.get(&paddr) {
                Some(s) => s.ptr == ptr && s.len == len && s.dir == dir && s.ap == ap,
                None => false,
            };
            w.hal_event(HalEv::Unshare { paddr, ptr, len, dir, ap, ok });
            if !ok {
                let what = match w.hal.shares.get(&paddr) {
                    Some(s) => format!(
                        "live share at that address has len={} dir={} access_platform={} same_buffer={}",
                        s.len,
                        s.dir.name(),
                        s.ap,
                        s.ptr == ptr
                    ),
                    None => "no live share at that device address (never shared, already unshared, \
                             or not the address share returned)"
                        .to_string(),
                };
                w.violation(
                    "unshare-mismatch",
                    "unshare",
                    format!(
                        "unshare(paddr={paddr:#x}, len={len}, dir={}, access_platform={ap}): {what}",
                        dir.name()
                    ),
                );
                return;
            }
            let s = w.hal.shares.remove(&paddr).unwrap();
            if let Some(q) = s.posted_on {
                w.violation(
                    "unshare-while-posted",
                    &format!("q{q}"),
                    format!("buffer {paddr:#x}+{len} unshared while the device has not completed the chain using it"),
                );
            }
            w.hal.n_unshare += 1;
            if let (true, Some(b)) = (s.dir.device_may_write(), &s.bounce) {
                // SAFETY: caller guarantees the buffer is valid for `len` bytes.
                unsafe { std::ptr::copy_nonoverlapping(b.as_ptr(), ptr as *mut u8, len) };
            }
        })
    }
}
