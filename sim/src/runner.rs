//! Batch runner: seeds -> runs on worker threads -> merged, order-independent aggregate;
//! shrinking; replay files; evidence.

use crate::json::J;
use crate::rng::{Tape, mix};
use crate::world::{self, AbortRun, Stats, Violation, World, WorldCfg};
use std::cell::RefCell;
use std::collections::{BTreeMap, BTreeSet};
use std::panic::{AssertUnwindSafe, catch_unwind};
use std::sync::Mutex;
use std::sync::atomic::{AtomicBool, AtomicU64, Ordering};
use std::time::{Duration, Instant};

#[derive(Copy, Clone, Debug, PartialEq, Eq)]
pub enum Tier {
    Quick,
    Thorough,
}

impl Tier {
    pub fn name(self) -> &'static str {
        match self {
            Tier::Quick => "quick",
            Tier::Thorough => "thorough",
        }
    }
}

thread_local! {
    static LAST_PANIC: RefCell<Option<(String, String)>> = const { RefCell::new(None) };
    static TIER: std::cell::Cell<Tier> = const { std::cell::Cell::new(Tier::Quick) };
}

pub fn tier() -> Tier {
    TIER.with(|t| t.get())
}

pub fn install_panic_hook() {
    std::panic::set_hook(Box::new(|info| {
        let loc = info
            .location()
            .map(|l| {
                let f = l.file();
                // keep paths stable and short
                let f = f.rsplit_once("/src/").map(|(_, r)| r).unwrap_or(f);
                format!("{}:{}", f, l.line())
            })
            .unwrap_or_else(|| "?".into());
        let msg = if let Some(s) = info.payload().downcast_ref::<&str>() {
            s.to_string()
        } else if let Some(s) = info.payload().downcast_ref::<String>() {
            s.clone()
        } else if let Some(a) = info.payload().downcast_ref::<AbortRun>() {
            format!("AbortRun({})", a.0)
        } else {
            "non-string panic payload".to_string()
        };
        LAST_PANIC.with(|c| *c.borrow_mut() = Some((msg, loc)));
    }));
}

/// (message, location) of the most recent panic on this thread, and clears it.
pub fn take_last_panic() -> Option<(String, String)> {
    LAST_PANIC.with(|c| c.borrow_mut().take())
}

/// Runs `f` catching any panic from driver code. Returns Err((message, location)) on a panic that
/// is not the harness' own AbortRun; re-raises AbortRun.
pub fn guarded<R>(f: impl FnOnce() -> R) -> Result<R, (String, String)> {
    match catch_unwind(AssertUnwindSafe(f)) {
        Ok(r) => Ok(r),
        Err(p) => {
            if p.is::<AbortRun>() {
                std::panic::resume_unwind(p);
            }
            Err(take_last_panic().unwrap_or(("?".into(), "?".into())))
        }
    }
}

pub struct Batch {
    pub name: &'static str,
    pub f: fn(),
    pub quick: u64,
    pub thorough: u64,
    /// Run on this batch is expensive: scale shrink budget down.
    pub heavy: bool,
    /// If non-zero: the scenario's first choice is a grid cell in 0..grid, and run i of the
    /// batch is forced to cell i % grid, so that `runs >= grid` enumerates the grid completely.
    pub grid: u64,
    /// If non-empty: the violation classes this batch judges. The scenario belongs to another
    /// property's check and is borrowed for the clauses of this property it can observe; every
    /// other class is that other check's business and is not recorded here.
    pub classes: &'static [&'static str],
}

/// What one run executes: the scenario and the classes judged.
#[derive(Clone, Copy)]
pub struct Scn {
    pub f: fn(),
    pub classes: &'static [&'static str],
}

impl Batch {
    pub fn scn(&self) -> Scn {
        Scn { f: self.f, classes: self.classes }
    }
}

pub struct Extra {
    pub name: &'static str,
    /// Returns (evaluations, exhaustive, description, violations as text)
    pub f: fn(Tier) -> ExtraResult,
}

pub struct ExtraResult {
    pub evaluations: u64,
    pub exhaustive: bool,
    pub description: String,
    pub violations: Vec<(String, String)>, // (key, message)
}

pub struct Spec {
    pub id: &'static str,
    pub level: &'static str,
    pub rule: &'static str,
    pub batches: Vec<Batch>,
    pub extras: Vec<Extra>,
    pub assumptions: Vec<&'static str>,
    pub real: Vec<&'static str>,
    pub stubbed: Vec<&'static str>,
}

pub struct Outcome {
    pub violations: Vec<Violation>,
    pub harness: Vec<String>,
    pub stats: Stats,
    pub log_hash: u64,
    pub nontrivial: bool,
    pub tape: Vec<u64>,
    pub oplog: Vec<String>,
    pub trace: Option<Vec<String>>,
}

impl Outcome {
    pub fn first_key(&self) -> Option<String> {
        self.violations.first().map(|v| v.key())
    }
}

/// Executes one run: a pure function of (f, tape).
pub fn exec_run(scn: Scn, tape: Tape, trace: bool) -> Outcome {
    let f = scn.f;
    world::set_class_filter(scn.classes);
    let mut w = World::new(tape, WorldCfg::default());
    if trace {
        w.trace = Some(Vec::new());
        w.oplog_cap = 100_000;
    }
    world::install(w);
    let _ = take_last_panic();
    let r = catch_unwind(AssertUnwindSafe(f));
    crate::heapwatch::disable();
    let mut w = world::uninstall().expect("world vanished");
    if let Err(p) = r {
        if !p.is::<AbortRun>() {
            let (msg, loc) = take_last_panic().unwrap_or(("?".into(), "?".into()));
            w.violation("unexpected-panic", &loc, format!("panic: {msg}"));
        }
    }
    let tape = w.tape.consumed();
    Outcome {
        violations: w.violations,
        harness: w.harness_errors,
        stats: w.stats,
        log_hash: w.log_hash,
        nontrivial: w.nontrivial,
        tape,
        oplog: w.oplog,
        trace: w.trace,
    }
}

#[derive(Default)]
struct Agg {
    runs: u64,
    faults: BTreeMap<&'static str, u64>,
    probes: BTreeMap<&'static str, u64>,
    ticks: u64,
    steps: u64,
    spins: u64,
    ops: u64,
    nontrivial: BTreeSet<u64>,
    distinct: BTreeSet<u64>,
    states: BTreeSet<u64>,
    viol: Vec<(u64, u64, Outcome)>, // (idx, seed, outcome)
    harness: Vec<String>,
    samples: Vec<(u64, u64, Vec<String>)>,
}

impl Agg {
    fn add(&mut self, idx: u64, seed: u64, o: Outcome) {
        self.runs += 1;
        for (k, v) in &o.stats.faults {
            *self.faults.entry(k).or_insert(0) += v;
        }
        for (k, v) in &o.stats.probes {
            *self.probes.entry(k).or_insert(0) += v;
        }
        self.ticks += o.stats.ticks;
        self.steps += o.stats.device_steps;
        self.spins += o.stats.spins;
        self.ops += o.stats.ops;
        self.distinct.insert(o.log_hash);
        if o.nontrivial {
            self.nontrivial.insert(o.log_hash);
        }
        if self.states.len() < 2_000_000 {
            self.states.extend(o.stats.states.iter().copied());
        }
        for h in &o.harness {
            if self.harness.len() < 16 {
                self.harness.push(format!("run {idx} seed {seed}: {h}"));
            }
        }
        if idx < 3 {
            self.samples.push((idx, seed, o.oplog.clone()));
        }
        if !o.violations.is_empty() && self.viol.len() < 64 {
            self.viol.push((idx, seed, o));
        }
    }
    fn merge(&mut self, o: Agg) {
        self.runs += o.runs;
        for (k, v) in o.faults {
            *self.faults.entry(k).or_insert(0) += v;
        }
        for (k, v) in o.probes {
            *self.probes.entry(k).or_insert(0) += v;
        }
        self.ticks += o.ticks;
        self.steps += o.steps;
        self.spins += o.spins;
        self.ops += o.ops;
        self.nontrivial.extend(o.nontrivial);
        self.distinct.extend(o.distinct);
        self.states.extend(o.states);
        self.viol.extend(o.viol);
        self.harness.extend(o.harness);
        self.samples.extend(o.samples);
    }
}

fn hash_str(s: &str) -> u64 {
    let mut h = 0xcbf2_9ce4_8422_2325u64;
    for b in s.bytes() {
        h ^= b as u64;
        h = h.wrapping_mul(0x0000_0100_0000_01B3);
    }
    h
}

pub fn run_seed(master: u64, prop: &str, batch: &str, idx: u64) -> u64 {
    mix(&[master, hash_str(prop), hash_str(batch), idx])
}

pub fn workers() -> usize {
    std::env::var("VERIF_WORKERS")
        .ok()
        .and_then(|s| s.parse().ok())
        .unwrap_or_else(|| std::thread::available_parallelism().map(|n| n.get()).unwrap_or(4))
        .max(1)
}

fn run_batch(prop: &str, b: &Batch, n: u64, master: u64, t: Tier, ignorable: &(dyn Fn(&Outcome) -> bool + Sync)) -> Agg {
    let next = AtomicU64::new(0);
    let total = Mutex::new(Agg::default());
    let stop = AtomicBool::new(false);
    let nw = workers().min(n.max(1) as usize);
    // Watchdog: a run that does not come back is a driver call that neither returns nor reaches
    // any point the simulator can see (a busy-wait on something that is not the used ring, a
    // loop on pure computation). Runs take milliseconds (seconds for the wrap-around batches);
    // the limit is generous. The run is identified by its seed, which replays it.
    let running: Vec<Mutex<Option<(Instant, u64, u64)>>> = (0..nw).map(|_| Mutex::new(None)).collect();
    let live = AtomicU64::new(nw as u64);
    let limit = run_time_limit(b.heavy);
    std::thread::scope(|s| {
        s.spawn(|| {
            while live.load(Ordering::Relaxed) > 0 {
                std::thread::sleep(Duration::from_millis(250));
                for slot in &running {
                    let cur = *slot.lock().unwrap();
                    if let Some((since, i, seed)) = cur {
                        if since.elapsed() > limit {
                            report_hung_run(prop, b, i, seed, limit);
                        }
                    }
                }
            }
        });
        for wi in 0..nw {
            let running = &running;
            let live = &live;
            let next = &next;
            let stop = &stop;
            let total = &total;
            std::thread::Builder::new()
                .stack_size(512 << 20)
                .spawn_scoped(s, move || {
                    TIER.with(|c| c.set(t));
                    let mut agg = Agg::default();
                    let mut new_viol = 0;
                    loop {
                        if stop.load(Ordering::Relaxed) {
                            break;
                        }
                        let i = next.fetch_add(1, Ordering::Relaxed);
                        if i >= n {
                            break;
                        }
                        let seed = run_seed(master, prop, b.name, i);
                        let tape = if b.grid > 0 { Tape::generate_forced(seed, vec![i % b.grid]) } else { Tape::generate(seed) };
                        *running[wi].lock().unwrap() = Some((Instant::now(), i, seed));
                        let o = exec_run(b.scn(), tape, false);
                        *running[wi].lock().unwrap() = None;
                        let counts = !o.violations.is_empty() && !ignorable(&o);
                        if !o.violations.is_empty() && !counts && agg.viol.len() >= 4 {
                            // known finding / other property's class: keep a few, do not stop
                            let mut o = o;
                            o.violations.clear();
                            agg.add(i, seed, o);
                        } else {
                            agg.add(i, seed, o);
                        }
                        if counts {
                            new_viol += 1;
                        }
                        if new_viol >= 8 {
                            stop.store(true, Ordering::Relaxed);
                        }
                    }
                    total.lock().unwrap().merge(agg);
                    live.fetch_sub(1, Ordering::Relaxed);
                })
                .expect("spawn worker");
        }
    });
    let mut a = total.into_inner().unwrap();
    a.viol.sort_by_key(|v| v.0);
    a.samples.sort_by_key(|v| v.0);
    a
}

pub fn run_time_limit(heavy: bool) -> Duration {
    let d = if heavy { 900 } else { 300 };
    Duration::from_secs(std::env::var("VERIF_RUN_TIMEOUT_S").ok().and_then(|s| s.parse().ok()).unwrap_or(d))
}

/// A run exceeded the watchdog limit: write a seed-based replay file, report and leave (the
/// thread cannot be stopped from outside).
fn report_hung_run(prop: &str, b: &Batch, idx: u64, seed: u64, limit: Duration) -> ! {
    let path = verif_dir().join("replays").join(format!("{}-{}-{}.json", prop, b.name, seed));
    let _ = std::fs::create_dir_all(path.parent().unwrap());
    let msg = format!(
        "a driver call did not return within {} s of wall-clock time and reached no point the simulator observes (transport, platform layer, queue-memory store, used-ring poll): it loops on something the device can never change",
        limit.as_secs()
    );
    let mut fields = vec![
        ("property", J::s(prop)),
        ("batch", J::s(b.name)),
        ("profile", J::s(profile_name())),
        ("seed", J::u(seed)),
        ("run_index", J::u(idx)),
        ("key", J::s("run-does-not-terminate@watchdog")),
        ("class", J::s("run-does-not-terminate")),
        ("site", J::s("watchdog")),
        ("message", J::s(&msg)),
        ("replay_by_seed", J::Bool(true)),
    ];
    if b.grid > 0 {
        fields.push(("forced_first_choice", J::u(idx % b.grid)));
    }
    let _ = std::fs::write(&path, J::obj(fields).to_string_pretty());
    println!("VIOLATION property={} replay={}", prop, path.display());
    println!("  {}:run-does-not-terminate@watchdog: {}", b.name, msg);
    std::process::exit(1);
}

// -------------------------------------------------------------------------------------------
// shrinking

pub fn shrink(f: Scn, tape: Vec<u64>, key: &str, max_execs: usize, deadline: Instant) -> (Vec<u64>, usize) {
    let mut best = tape;
    let mut execs = 0usize;
    // the first execution (the full tape) gets the remaining shrink time and a generous margin
    let limit = std::cell::Cell::new(deadline.saturating_duration_since(Instant::now()) + Duration::from_secs(120));
    let first = std::cell::Cell::new(true);
    let test = |t: &Vec<u64>, execs: &mut usize| -> bool {
        if *execs >= max_execs || Instant::now() > deadline {
            return false;
        }
        *execs += 1;
        // a candidate may run for as long as the slowest candidate that reproduced so far took,
        // times four, plus a second; never past the shrink deadline by more than that
        let started = Instant::now();
        world::ABANDON_AT.with(|c| c.set(Some(started + limit.get())));
        let o = exec_run(f, Tape::replay(t.clone()), false);
        world::ABANDON_AT.with(|c| c.set(None));
        let ok = o.first_key().as_deref() == Some(key);
        if first.replace(false) {
            limit.set(started.elapsed() * 4 + Duration::from_secs(1));
        } else if ok {
            limit.set(limit.get().max(started.elapsed() * 4 + Duration::from_secs(1)));
        }
        ok
    };
    // The replay of the full tape must reproduce at all.
    if !test(&best, &mut execs) {
        return (best, execs);
    }
    loop {
        let before = best.clone();
        // 1. truncate
        let mut cut = best.len() / 2;
        while cut >= 1 && best.len() > 1 {
            let cand: Vec<u64> = best[..best.len() - cut.min(best.len() - 1)].to_vec();
            if cand.len() < best.len() && test(&cand, &mut execs) {
                best = cand;
                cut = (best.len() / 2).max(1).min(cut);
            } else {
                cut /= 2;
            }
            if execs >= max_execs {
                break;
            }
        }
        // 2. delete chunks
        let mut size = (best.len() / 2).max(1);
        let min_size = (best.len() / 256).max(1);
        while size >= min_size {
            let mut pos = 0;
            while pos + size <= best.len() {
                let mut cand = best.clone();
                cand.drain(pos..pos + size);
                if test(&cand, &mut execs) {
                    best = cand;
                } else {
                    pos += size;
                }
                if execs >= max_execs {
                    break;
                }
            }
            if size == 1 {
                break;
            }
            size /= 2;
            if execs >= max_execs {
                break;
            }
        }
        // 3. zero and halve values
        let n = best.len();
        let stride = (n / 512).max(1);
        let mut i = 0;
        while i < n && i < best.len() {
            if best[i] != 0 {
                let mut cand = best.clone();
                cand[i] = 0;
                if test(&cand, &mut execs) {
                    best = cand;
                } else {
                    let mut v = best[i];
                    while v > 1 {
                        v /= 2;
                        let mut cand = best.clone();
                        cand[i] = v;
                        if test(&cand, &mut execs) {
                            best = cand;
                        } else {
                            break;
                        }
                    }
                    if best[i] > 0 {
                        let mut cand = best.clone();
                        cand[i] -= 1;
                        if test(&cand, &mut execs) {
                            best = cand;
                        }
                    }
                }
            }
            i += stride;
            if execs >= max_execs {
                break;
            }
        }
        if best == before || execs >= max_execs || Instant::now() > deadline {
            break;
        }
    }
    // drop trailing zeros (an exhausted tape yields zeros anyway)
    while best.last() == Some(&0) {
        best.pop();
    }
    (best, execs)
}

// -------------------------------------------------------------------------------------------
// known findings

pub struct Known {
    pub property: String,
    pub key: String,
    pub status: String,
    pub what: String,
}

pub fn verif_dir() -> std::path::PathBuf {
    if let Ok(d) = std::env::var("VERIF_DIR") {
        return d.into();
    }
    // binary lives in /verif/sim/target/<profile>/vdsim
    let exe = std::env::current_exe().unwrap_or_default();
    for a in exe.ancestors() {
        if a.join("MANIFEST.json").exists() && a.join("sim").is_dir() {
            return a.to_path_buf();
        }
    }
    "/verif".into()
}

pub fn load_known() -> Vec<Known> {
    let p = verif_dir().join("known_findings.json");
    let Ok(s) = std::fs::read_to_string(&p) else {
        return vec![];
    };
    let Ok(j) = crate::json::parse(&s) else {
        eprintln!("warning: cannot parse {}", p.display());
        return vec![];
    };
    let mut v = Vec::new();
    if let Some(a) = j.get("findings").and_then(|a| a.as_arr()) {
        for e in a {
            v.push(Known {
                property: e.get("property").and_then(|x| x.as_str()).unwrap_or("").to_string(),
                key: e.get("key").and_then(|x| x.as_str()).unwrap_or("").to_string(),
                status: e.get("status").and_then(|x| x.as_str()).unwrap_or("").to_string(),
                what: e.get("what").and_then(|x| x.as_str()).unwrap_or("").to_string(),
            });
        }
    }
    v
}

// -------------------------------------------------------------------------------------------
// property run

/// Violation classes that are judged by specific properties only.
pub fn class_owners(class: &str) -> Option<&'static [&'static str]> {
    match class {
        "vsock-credit-overstated-after-rerequest" => Some(&["C17"]),
        // how many receive buffers the console keeps posted, and when it posts them again, is
        // C15's clause; the C07 batches that borrow the console scenario judge data and memory
        "console-rx-outstanding" | "console-repost-early" => Some(&["C15"]),
        _ => None,
    }
}

pub fn profile_name() -> &'static str {
    if std::env::var("VERIF_EVIDENCE_SUFFIX").is_ok_and(|s| s == ".asan") {
        "wrapping+asan"
    } else if cfg!(debug_assertions) {
        "checked"
    } else {
        "wrapping"
    }
}

pub fn run_property(spec: &Spec, t: Tier, master: u64, write_evidence: bool) -> i32 {
    let start = Instant::now();
    TIER.with(|c| c.set(t));
    let known = load_known();
    let mut total = Agg::default();
    let mut batch_info = Vec::new();
    let mut new_violations: Vec<(String, String, String)> = Vec::new(); // (key, replay path, msg)
    let mut known_hits: BTreeMap<String, String> = BTreeMap::new();
    let mut seen_keys: BTreeSet<String> = BTreeSet::new();
    let mut foreign: BTreeSet<String> = BTreeSet::new();
    let scale: f64 = std::env::var("VERIF_SCALE").ok().and_then(|s| s.parse().ok()).unwrap_or(1.0);
    let only = std::env::var("VERIF_BATCH").ok();
    for b in &spec.batches {
        if only.as_deref().is_some_and(|o| o != b.name) {
            continue;
        }
        let n = match t {
            Tier::Quick => b.quick,
            Tier::Thorough => b.thorough,
        };
        let n = ((n as f64 * scale) as u64).max(1);
        let bs = Instant::now();
        let ignorable = |o: &Outcome| -> bool {
            let Some(v) = o.violations.first() else { return false };
            let key = v.key();
            let full = format!("{}:{}", b.name, key);
            if let Some(owners) = class_owners(&v.class) {
                if !owners.contains(&spec.id) {
                    return true;
                }
            }
            known.iter().any(|k| k.property == spec.id && k.status == "finding" && (k.key == key || k.key == full))
        };
        let agg = run_batch(spec.id, b, n, master, t, &ignorable);
        let secs = bs.elapsed().as_secs_f64();
        if std::env::var("VERIF_TIMING").is_ok() {
            eprintln!("timing {} {}: {} runs in {:.1}s", spec.id, b.name, agg.runs, secs);
        }
        batch_info.push(J::obj(vec![
            ("batch", J::s(b.name)),
            ("runs", J::u(agg.runs)),
            ("wall_s", J::Num(secs)),
            ("distinct_executions", J::u(agg.distinct.len() as u64)),
            ("nontrivial_distinct", J::u(agg.nontrivial.len() as u64)),
            ("violating_runs", J::u(agg.viol.len() as u64)),
            ("grid_cells", J::u(b.grid)),
            ("grid_enumerated_completely", J::Bool(b.grid > 0 && agg.runs >= b.grid && agg.viol.len() < 8)),
        ]));
        // triage violations of this batch
        for (idx, seed, o) in &agg.viol {
            let key = o.first_key().unwrap();
            // A few violation classes belong to one property only although several checks share
            // the scenario that can observe them; the other checks do not judge them.
            let class = o.violations[0].class.as_str();
            if let Some(owners) = class_owners(class) {
                if !owners.contains(&spec.id) {
                    foreign.insert(key.clone());
                    continue;
                }
            }
            let full_key = format!("{}:{}", b.name, key);
            if !seen_keys.insert(full_key.clone()) {
                continue;
            }
            if let Some(k) = known.iter().find(|k| k.property == spec.id && k.status == "finding" && (k.key == key || k.key == full_key)) {
                known_hits.insert(k.key.clone(), k.what.clone());
                continue;
            }
            if new_violations.len() >= 3 {
                continue;
            }
            let budget = if b.heavy { 150 } else { 1500 };
            let deadline = Instant::now() + Duration::from_secs(if b.heavy { 30 } else { 20 });
            let (min_tape, execs) = shrink(b.scn(), o.tape.clone(), &key, budget, deadline);
            let rep = exec_run(b.scn(), Tape::replay(min_tape.clone()), true);
            let (tape_out, rep) = if rep.first_key().as_deref() == Some(&key) {
                (min_tape, rep)
            } else {
                (o.tape.clone(), exec_run(b.scn(), Tape::replay(o.tape.clone()), true))
            };
            let v = rep.violations.first().cloned().unwrap_or_else(|| o.violations[0].clone());
            let path = verif_dir().join("replays").join(format!("{}-{}-{}.json", spec.id, b.name, seed));
            let _ = std::fs::create_dir_all(path.parent().unwrap());
            let trace = rep.trace.clone().unwrap_or_default();
            let tail: Vec<String> = trace.iter().rev().take(400).rev().cloned().collect();
            let j = J::obj(vec![
                ("property", J::s(spec.id)),
                ("batch", J::s(b.name)),
                ("profile", J::s(profile_name())),
                ("seed", J::u(*seed)),
                ("run_index", J::u(*idx)),
                ("key", J::s(key.clone())),
                ("class", J::s(v.class.clone())),
                ("site", J::s(v.site.clone())),
                ("message", J::s(v.msg.clone())),
                ("original_tape_len", J::u(o.tape.len() as u64)),
                ("shrink_executions", J::u(execs as u64)),
                ("event_log_hash", J::s(format!("{:016x}", rep.log_hash))),
                ("tape", J::Arr(tape_out.iter().map(|x| J::u(*x)).collect())),
                ("operations", J::arr_str(&rep.oplog)),
                ("trace_tail", J::arr_str(&tail)),
            ]);
            let _ = std::fs::write(&path, j.to_string_pretty());
            new_violations.push((full_key, path.display().to_string(), v.msg.clone()));
        }
        total.merge(agg);
    }
    // extras (exhaustive sweeps of cheap sub-spaces)
    let mut extras_j = Vec::new();
    let mut extra_evals = 0;
    for e in &spec.extras {
        let es = Instant::now();
        let r = (e.f)(t);
        extra_evals += r.evaluations;
        extras_j.push(J::obj(vec![
            ("name", J::s(e.name)),
            ("evaluations", J::u(r.evaluations)),
            ("exhaustive", J::Bool(r.exhaustive)),
            ("description", J::s(r.description.clone())),
            ("wall_s", J::Num(es.elapsed().as_secs_f64())),
            ("violations", J::u(r.violations.len() as u64)),
        ]));
        for (key, msg) in r.violations {
            let full_key = format!("{}:{}", e.name, key);
            if !seen_keys.insert(full_key.clone()) {
                continue;
            }
            if let Some(k) = known.iter().find(|k| k.property == spec.id && k.status == "finding" && (k.key == key || k.key == full_key)) {
                known_hits.insert(k.key.clone(), k.what.clone());
                continue;
            }
            let path = verif_dir().join("replays").join(format!("{}-{}.json", spec.id, e.name));
            let _ = std::fs::create_dir_all(path.parent().unwrap());
            let j = J::obj(vec![
                ("property", J::s(spec.id)),
                ("extra", J::s(e.name)),
                ("key", J::s(key)),
                ("message", J::s(msg.clone())),
            ]);
            let _ = std::fs::write(&path, j.to_string_pretty());
            new_violations.push((full_key, path.display().to_string(), msg));
        }
    }
    let wall = start.elapsed().as_secs_f64();
    for (k, what) in &known_hits {
        println!("KNOWN-FINDING: property={} {} [{}]", spec.id, what, k);
    }
    for (key, path, msg) in &new_violations {
        println!("VIOLATION property={} replay={}", spec.id, path);
        println!("  {key}: {msg}");
    }
    for h in &total.harness {
        println!("HARNESS-ERROR: {h}");
    }
    if write_evidence {
        let samples: Vec<J> = total
            .samples
            .iter()
            .take(3)
            .map(|(idx, seed, ops)| {
                J::obj(vec![
                    ("run_index", J::u(*idx)),
                    ("seed", J::u(*seed)),
                    ("operations", J::arr_str(&ops.iter().take(40).cloned().collect::<Vec<_>>())),
                ])
            })
            .collect();
        let zero_probes: Vec<String> = total.probes.iter().filter(|(_, v)| **v == 0).map(|(k, _)| k.to_string()).collect();
        let cov = J::obj(vec![
            ("evaluations", J::u(total.runs + extra_evals)),
            ("simulated_runs", J::u(total.runs)),
            ("distinct_nontrivial", J::u(total.nontrivial.len() as u64)),
            ("distinct_executions", J::u(total.distinct.len() as u64)),
            ("rule", J::s(spec.rule)),
            ("samples", J::Arr(samples)),
            ("exhaustive", J::Bool(false)),
            ("batches", J::Arr(batch_info)),
            ("exhaustive_subspaces", J::Arr(extras_j)),
            ("runs_per_hour", J::u(if wall > 0.0 { (total.runs as f64 / wall * 3600.0) as u64 } else { 0 })),
            ("simulated_ticks", J::u(total.ticks)),
            ("device_steps", J::u(total.steps)),
            ("spin_iterations", J::u(total.spins)),
            ("workload_operations", J::u(total.ops)),
            ("faults_fired", J::map_u64(&total.faults)),
            ("reach_probes", J::map_u64(&total.probes)),
            ("reach_probes_at_zero", J::arr_str(&zero_probes)),
            ("distinct_abstract_states", J::u(total.states.len() as u64)),
            ("real_components", J::Arr(spec.real.iter().map(|s| J::s(*s)).collect())),
            ("stubbed_components", J::Arr(spec.stubbed.iter().map(|s| J::s(*s)).collect())),
            ("engine", J::s(format!("native/{}", profile_name()))),
            ("workers", J::u(workers() as u64)),
            ("known_findings_hit", J::Arr(known_hits.keys().map(|k| J::s(k.clone())).collect())),
            ("observations_owned_by_other_properties", J::Arr(foreign.iter().map(|k| J::s(k.clone())).collect())),
        ]);
        let ev = J::obj(vec![
            ("property_id", J::s(spec.id)),
            ("tier", J::s(t.name())),
            ("seed", J::Int((master & 0x7fff_ffff_ffff_ffff) as i128)),
            ("level", J::s(spec.level)),
            ("coverage", cov),
            ("assumptions", J::Arr(spec.assumptions.iter().map(|s| J::s(*s)).collect())),
            ("wall_s", J::Num(wall)),
            ("violations", J::u(new_violations.len() as u64)),
        ]);
        let suffix = std::env::var("VERIF_EVIDENCE_SUFFIX").unwrap_or_default();
        let path = verif_dir().join("evidence").join(format!("{}{}.json", spec.id, suffix));
        let _ = std::fs::create_dir_all(path.parent().unwrap());
        if let Err(e) = std::fs::write(&path, ev.to_string_pretty()) {
            println!("HARNESS-ERROR: cannot write evidence {}: {e}", path.display());
            return 2;
        }
    }
    println!(
        "{} {} [{}]: {} runs, {} distinct executions ({} non-trivial), {} ticks, {:.1}s, {} new violation(s), {} known finding(s)",
        spec.id,
        t.name(),
        profile_name(),
        total.runs,
        total.distinct.len(),
        total.nontrivial.len(),
        total.ticks,
        wall,
        new_violations.len(),
        known_hits.len()
    );
    if !new_violations.is_empty() {
        1
    } else if !total.harness.is_empty() {
        2
    } else {
        0
    }
}

/// Re-executes a replay file in this (fresh) process; exit 1 if the violation reproduces.
pub fn replay_file(path: &str, find_batch: impl Fn(&str, &str) -> Option<Scn>) -> i32 {
    let s = match std::fs::read_to_string(path) {
        Ok(s) => s,
        Err(e) => {
            println!("HARNESS-ERROR: cannot read {path}: {e}");
            return 2;
        }
    };
    let j = match crate::json::parse(&s) {
        Ok(j) => j,
        Err(e) => {
            println!("HARNESS-ERROR: cannot parse {path}: {e}");
            return 2;
        }
    };
    let prop = j.get("property").and_then(|x| x.as_str()).unwrap_or("");
    let batch = j.get("batch").and_then(|x| x.as_str()).unwrap_or("");
    let key = j.get("key").and_then(|x| x.as_str()).unwrap_or("");
    let want_hash = j.get("event_log_hash").and_then(|x| x.as_str()).unwrap_or("");
    if j.get("replay_by_seed").is_some() {
        let seed = j.get("seed").and_then(|x| x.as_u64()).unwrap_or(0);
        let Some(f) = find_batch(prop, batch) else {
            println!("HARNESS-ERROR: unknown property/batch {prop}/{batch}");
            return 2;
        };
        let tape = match j.get("forced_first_choice").and_then(|x| x.as_u64()) {
            Some(c) => Tape::generate_forced(seed, vec![c]),
            None => Tape::generate(seed),
        };
        let limit = run_time_limit(false).min(Duration::from_secs(120));
        let (p2, k2) = (prop.to_string(), path.to_string());
        std::thread::spawn(move || {
            std::thread::sleep(limit);
            println!("VIOLATION property={p2} replay={k2}");
            println!("  replay of {k2}: reproduced: the run does not terminate ({} s)", limit.as_secs());
            std::process::exit(1);
        });
        let o = exec_run(f, tape, true);
        println!("replay of {path}: the run terminated this time ({} violation(s)): not reproduced", o.violations.len());
        return if o.violations.is_empty() { 0 } else { 1 };
    }
    let Some(tape) = j.get("tape").and_then(|x| x.as_arr()) else {
        println!("replay file {path} has no tape (exhaustive-sweep finding): message: {}", j.get("message").and_then(|x| x.as_str()).unwrap_or(""));
        return 2;
    };
    let tape: Vec<u64> = tape.iter().filter_map(|x| x.as_u64()).collect();
    let Some(f) = find_batch(prop, batch) else {
        println!("HARNESS-ERROR: unknown property/batch {prop}/{batch}");
        return 2;
    };
    let o = exec_run(f, Tape::replay(tape), true);
    if let Some(t) = &o.trace {
        for l in t.iter().rev().take(60).rev() {
            println!("  {l}");
        }
    }
    let got_hash = format!("{:016x}", o.log_hash);
    match o.violations.first() {
        Some(v) => {
            println!("replayed: {}: {}", v.key(), v.msg);
            println!("event log hash {} (recorded {}){}", got_hash, want_hash, if got_hash == want_hash { " identical" } else { " DIFFERENT" });
            if v.key() == key {
                println!("VIOLATION property={prop} replay={path}");
                1
            } else {
                println!("replay produced a different violation than recorded ({key})");
                1
            }
        }
        None => {
            println!("replay of {path}: no violation (property holds on this tree for this schedule)");
            0
        }
    }
}
