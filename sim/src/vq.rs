//! Reference split-virtqueue device core: the device's side of a virtqueue, written from the
//! VirtIO 1.2 text (DESIGN appendix A), not from the driver's structs. Walking a published chain
//! with full validation *is* the C01 oracle; doing it at every store point is the C02 oracle.

use crate::world::*;

/// Hook site: `VirtQueue::can_pop` returned false.
pub const SPIN_POLL_EMPTY: u32 = 5;
/// Consecutive empty polls (with nothing else happening) that make a loop.
pub const POLL_EMPTY_LOOP: u32 = 24;

use std::collections::BTreeSet;

pub const D_NEXT: u16 = 1;
pub const D_WRITE: u16 = 2;
pub const D_INDIRECT: u16 = 4;

/// `vring_need_event` from the specification.
pub fn vring_need_event(event: u16, new: u16, old: u16) -> bool {
    new.wrapping_sub(event).wrapping_sub(1) < new.wrapping_sub(old)
}

pub struct RawDesc {
    pub addr: u64,
    pub len: u32,
    pub flags: u16,
    pub next: u16,
}

pub fn read_desc(hal: &HalState, table: u64, i: u16) -> Result<RawDesc, String> {
    let mut b = [0u8; 16];
    hal.dev_read(table + 16 * i as u64, &mut b)
        .map_err(|f| format!("descriptor {i} unreadable: {} ({:#x})", f.why, f.paddr))?;
    Ok(RawDesc {
        addr: u64::from_le_bytes(b[0..8].try_into().unwrap()),
        len: u32::from_le_bytes(b[8..12].try_into().unwrap()),
        flags: u16::from_le_bytes(b[12..14].try_into().unwrap()),
        next: u16::from_le_bytes(b[14..16].try_into().unwrap()),
    })
}

fn check_elem_addr(hal: &HalState, e: &Elem) -> Result<(), String> {
    let len = e.len as usize;
    if let Some(s) = hal.find_share(e.addr, len.max(1)) {
        if e.write && !s.dir.device_may_write() {
            return Err(format!(
                "device-writable element {:#x}+{} points into a buffer shared {}",
                e.addr,
                e.len,
                s.dir.name()
            ));
        }
        if !e.write && s.dir == Dir::DeviceToDriver {
            return Err(format!(
                "device-readable element {:#x}+{} points into a buffer shared DeviceToDriver",
                e.addr, e.len
            ));
        }
        if s.paddr != e.addr || s.len != len {
            return Err(format!(
                "element {:#x}+{} does not describe a whole shared buffer (share is {:#x}+{})",
                e.addr, e.len, s.paddr, s.len
            ));
        }
        return Ok(());
    }
    if let Some(r) = hal.find_dma(e.addr, len.max(1)) {
        if e.write && !r.dir.device_may_write() {
            return Err(format!(
                "device-writable element {:#x}+{} points into DMA memory allocated {}",
                e.addr,
                e.len,
                r.dir.name()
            ));
        }
        return Ok(());
    }
    Err(format!(
        "element address {:#x}+{} is neither inside a live share nor inside live DMA memory \
         (not an address the platform handed out)",
        e.addr, e.len
    ))
}

/// Walks the chain starting at `head` exactly as a device would, validating everything the
/// specification requires of the driver.
pub fn parse_chain(
    hal: &HalState,
    reg: &QueueReg,
    head: u16,
    indirect_negotiated: bool,
) -> Result<Chain, String> {
    let size = reg.size as u16;
    if size == 0 {
        return Err("queue size 0".into());
    }
    if head as u32 >= reg.size {
        return Err(format!("head index {head} out of range (queue size {size})"));
    }
    let mut elems = Vec::new();
    let mut descs = Vec::new();
    let mut seen = BTreeSet::new();
    let mut indirect = None;
    let mut i = head;
    loop {
        if !seen.insert(i) {
            return Err(format!("descriptor chain loops at index {i}"));
        }
        if descs.len() as u32 >= reg.size {
            return Err("chain longer than the queue size".into());
        }
        let d = read_desc(hal, reg.desc, i)?;
        descs.push(i);
        if d.flags & !(D_NEXT | D_WRITE | D_INDIRECT) != 0 {
            return Err(format!("descriptor {i} has unknown flag bits {:#x}", d.flags));
        }
        if d.flags & D_INDIRECT != 0 {
            if !indirect_negotiated {
                return Err(format!(
                    "descriptor {i} is INDIRECT although indirect descriptors were not negotiated"
                ));
            }
            if d.flags & D_NEXT != 0 {
                return Err(format!("descriptor {i} has both INDIRECT and NEXT"));
            }
            if !elems.is_empty() {
                // The spec allows a chain ending in an indirect descriptor, but this driver
                // never builds one; treat as well-formed per spec and continue.
            }
            if d.len == 0 || d.len % 16 != 0 {
                return Err(format!(
                    "indirect table length {} is not a non-zero multiple of 16",
                    d.len
                ));
            }
            let n = d.len / 16;
            if n > reg.size {
                return Err(format!("indirect table with {n} entries exceeds queue size {size}"));
            }
            match hal.find_share(d.addr, d.len as usize) {
                Some(s) => {
                    if s.dir == Dir::DeviceToDriver {
                        return Err("indirect table shared DeviceToDriver".into());
                    }
                }
                None => {
                    if hal.find_dma(d.addr, d.len as usize).is_none() {
                        return Err(format!(
                            "indirect table address {:#x}+{} is not an address the platform \
                             handed out",
                            d.addr, d.len
                        ));
                    }
                }
            }
            indirect = Some((d.addr, d.len));
            // Walk the table.
            let mut tseen = BTreeSet::new();
            let mut j: u16 = 0;
            loop {
                if j as u32 >= n {
                    return Err(format!("indirect next index {j} out of table (entries {n})"));
                }
                if !tseen.insert(j) {
                    return Err(format!("indirect table loops at entry {j}"));
                }
                let t = read_desc(hal, d.addr, j)?;
                if t.flags & D_INDIRECT != 0 {
                    return Err(format!("indirect table entry {j} is itself INDIRECT"));
                }
                if t.flags & !(D_NEXT | D_WRITE) != 0 {
                    return Err(format!("indirect entry {j} has unknown flag bits {:#x}", t.flags));
                }
                elems.push(Elem {
                    addr: t.addr,
                    len: t.len,
                    write: t.flags & D_WRITE != 0,
                });
                if t.flags & D_NEXT != 0 {
                    j = t.next;
                } else {
                    break;
                }
            }
            break;
        }
        elems.push(Elem {
            addr: d.addr,
            len: d.len,
            write: d.flags & D_WRITE != 0,
        });
        if d.flags & D_NEXT != 0 {
            if d.next as u32 >= reg.size {
                return Err(format!(
                    "descriptor {i} has next index {} out of range (queue size {size})",
                    d.next
                ));
            }
            i = d.next;
        } else {
            break;
        }
    }
    // all readable parts before writable parts
    let mut seen_write = false;
    for (k, e) in elems.iter().enumerate() {
        if e.write {
            seen_write = true;
        } else if seen_write {
            return Err(format!("element {k} is device-readable but follows a device-writable one"));
        }
    }
    for e in &elems {
        check_elem_addr(hal, e)?;
    }
    Ok(Chain {
        head,
        elems,
        descs,
        indirect,
        avail_pos: 0,
        seq: 0,
    })
}

impl World {
    fn qreg(&self, q: u16) -> Option<&QueueReg> {
        self.tr.queues.get(q as usize).filter(|r| r.ready && r.size > 0)
    }

    pub fn avail_idx_mem(&self, q: u16) -> Option<u16> {
        let r = self.qreg(q)?;
        if self.cfg.scribble {
            // the device has overwritten the ring itself; it knows the index from the driver's store
            return Some(self.dq.get(q as usize).and_then(|d| d.hook_idx).unwrap_or(0));
        }
        self.hal.read_u16(r.driver + 2).ok()
    }
    pub fn avail_flags_mem(&self, q: u16) -> Option<u16> {
        let r = self.qreg(q)?;
        self.hal.read_u16(r.driver).ok()
    }
    pub fn used_event_mem(&self, q: u16) -> Option<u16> {
        let r = self.qreg(q)?;
        self.hal.read_u16(r.driver + 4 + 2 * r.size as u64).ok()
    }

    fn write_used_flags(&mut self, q: u16, v: u16) {
        if let Some(r) = self.qreg(q) {
            let a = r.device;
            if let Err(f) = self.hal.dev_write(a, &v.to_le_bytes()) {
                self.violation("device-mem-fault", "used.flags", format!("{} {:#x}", f.why, f.paddr));
            }
        }
    }
    fn write_avail_event(&mut self, q: u16, v: u16) {
        if let Some(r) = self.qreg(q) {
            let a = r.device + 4 + 8 * r.size as u64;
            if let Err(f) = self.hal.dev_write(a, &v.to_le_bytes()) {
                self.violation("device-mem-fault", "avail_event", format!("{} {:#x}", f.why, f.paddr));
            }
        }
    }

    /// The C02 observer: what a device looking at queue memory *now* would find. Validates every
    /// entry below the available index that has not been validated yet.
    pub fn observe_queue(&mut self, q: u16, site: &str) {
        let Some(reg) = self.qreg(q).cloned() else {
            return;
        };
        if self.dq.len() <= q as usize {
            return;
        }
        let idx = match self.avail_idx_mem(q).ok_or(()).or_else(|_| self.hal.read_u16(reg.driver + 2).map_err(|_| ())) {
            Ok(v) => v,
            Err(()) => {
                self.violation("device-mem-fault", "avail.idx", "available index unreadable".into());
                return;
            }
        };
        let from = self.dq[q as usize].validated_avail;
        let n = idx.wrapping_sub(from);
        if n == 0 {
            return;
        }
        if !self.cfg.validate {
            // hostile/scribble runs: the device works from what it sees but does not judge
            self.fetch_unvalidated(q, &reg, from, idx);
            return;
        }
        let outstanding = self.dq[q as usize].pending.len() + self.dq[q as usize].observed.len();
        if n as u32 > reg.size || outstanding + n as usize > reg.size as usize {
            self.violation(
                "avail-idx-jump",
                &format!("q{q}/{site}"),
                format!(
                    "available index moved from {from} to {idx} (queue size {}, {} chains already \
                     outstanding): backwards or by more than the queue can hold",
                    reg.size, outstanding
                ),
            );
            self.dq[q as usize].validated_avail = idx;
            return;
        }
        let indirect_ok = self.tr.negotiated(F_INDIRECT);
        for k in 0..n {
            let pos = from.wrapping_add(k);
            let slot = (pos as u32 % reg.size) as u16;
            let head = match self.hal.read_u16(reg.driver + 4 + 2 * slot as u64) {
                Ok(v) => v,
                Err(f) => {
                    self.violation("device-mem-fault", "avail.ring", format!("{} {:#x}", f.why, f.paddr));
                    return;
                }
            };
            match parse_chain(&self.hal, &reg, head, indirect_ok) {
                Err(why) => {
                    self.violation(
                        "chain-malformed",
                        &format!("q{q}/{site}"),
                        format!(
                            "entry at available position {pos} (slot {slot}, head {head}) visible \
                             below available index {idx} is not a valid complete chain: {why}"
                        ),
                    );
                    self.dq[q as usize].validated_avail = idx;
                    return;
                }
                Ok(mut chain) => {
                    // no descriptor in two outstanding chains
                    let dqs = &mut self.dq[q as usize];
                    for d in &chain.descs {
                        if let Some(owner) = dqs.desc_owner.get(d) {
                            let owner = *owner;
                            self.violation(
                                "descriptor-shared",
                                &format!("q{q}/{site}"),
                                format!(
                                    "descriptor {d} of newly published chain (head {head}) still \
                                     belongs to outstanding chain with head {owner}"
                                ),
                            );
                            self.dq[q as usize].validated_avail = idx;
                            return;
                        }
                    }
                    if let Some(owner) = dqs.slot_owner.get(&slot) {
                        let owner = *owner;
                        self.violation(
                            "ring-slot-reused",
                            &format!("q{q}/{site}"),
                            format!("ring slot {slot} reused while chain {owner} published in it has not been read by the device"),
                        );
                        self.dq[q as usize].validated_avail = idx;
                        return;
                    }
                    dqs.seq += 1;
                    chain.seq = dqs.seq;
                    chain.avail_pos = pos;
                    for d in &chain.descs {
                        dqs.desc_owner.insert(*d, head);
                    }
                    dqs.slot_owner.insert(slot, head);
                    // mark shares as posted
                    let addrs: Vec<u64> = chain
                        .elems
                        .iter()
                        .map(|e| e.addr)
                        .chain(chain.indirect.iter().map(|t| t.0))
                        .collect();
                    for a in addrs {
                        if let Some((_, s)) = self.hal.shares.range_mut(..=a).next_back() {
                            if a < s.paddr + s.len as u64 {
                                s.posted_on = Some(q);
                                s.last_queue = Some(q);
                            }
                        }
                    }
                    crate::heapwatch::sync(self);
                    self.ev(0x10, q as u64, ((head as u64) << 16) | pos as u64);
                    if let Some(mut dev) = self.dev.take() {
                        {
                            let mut ctx = DevCtx {
                                hal: &mut self.hal,
                                tr: &mut self.tr,
                                tape: &mut self.tape,
                                violations: &mut self.violations,
                                stats: &mut self.stats,
                                tick: self.tick,
                                quiet_mem_faults: self.cfg.hostile,
                            };
                            dev.on_published(q, &chain, &mut ctx);
                        }
                        self.dev = Some(dev);
                    }
                    let dqs = &mut self.dq[q as usize];
                    if dqs.recent.len() >= 4 {
                        dqs.recent.pop_front();
                    }
                    dqs.recent.push_back(chain.clone());
                    dqs.observed.push(chain);
                }
            }
        }
        self.dq[q as usize].validated_avail = idx;
    }

    fn fetch_unvalidated(&mut self, q: u16, reg: &QueueReg, from: u16, idx: u16) {
        // Used when validation is off: parse leniently, skip what cannot be parsed.
        let mut n = idx.wrapping_sub(from);
        if n as u32 > reg.size {
            n = reg.size as u16;
        }
        for k in 0..n {
            let pos = from.wrapping_add(k);
            let slot = (pos as u32 % reg.size) as u16;
            let Ok(head) = self.hal.read_u16(reg.driver + 4 + 2 * slot as u64) else {
                continue;
            };
            if let Ok(mut chain) = parse_chain(&self.hal, reg, head, true) {
                let dqs = &mut self.dq[q as usize];
                dqs.seq += 1;
                chain.seq = dqs.seq;
                chain.avail_pos = pos;
                dqs.observed.push(chain);
            }
        }
        self.dq[q as usize].validated_avail = idx;
    }

    // ---------------------------------------------------------------------------------------
    // hooks and transport events

    /// Device-visible driver-owned queue memory of `q`: descriptor table followed by the
    /// available ring.
    pub fn driver_areas(&self, q: u16) -> Option<Vec<u8>> {
        let r = self.qreg(q)?;
        let n = r.size as usize;
        let mut v = vec![0u8; 16 * n + 6 + 2 * n];
        self.hal.dev_read(r.desc, &mut v[..16 * n]).ok()?;
        self.hal.dev_read(r.driver, &mut v[16 * n..]).ok()?;
        Some(v)
    }

    /// Hook-placement self-check: what changed in device-visible memory since the last look must
    /// be exactly what the store event `ev` (kind, index) announces; `None` = no store announced.
    pub fn audit_stores(&mut self, q: u16, ev: Option<(u32, u16)>) {
        let Some((aq, snap)) = self.store_audit.take() else { return };
        if aq != q || self.cfg.scribble {
            self.store_audit = Some((aq, snap));
            return;
        }
        let Some(cur) = self.driver_areas(q) else {
            self.store_audit = Some((aq, snap));
            return;
        };
        let n = self.tr.queues[q as usize].size as usize;
        let allowed: std::ops::Range<usize> = match ev {
            Some((0, i)) => 16 * i as usize..16 * i as usize + 16,
            Some((1, i)) => 16 * n + 4 + 2 * i as usize..16 * n + 6 + 2 * i as usize,
            Some((2, _)) => 16 * n + 2..16 * n + 4,
            Some((3, _)) => 16 * n + 4 + 2 * n..16 * n + 6 + 2 * n,
            Some((4, _)) => 16 * n..16 * n + 2,
            _ => 0..0,
        };
        if cur.len() == snap.len() {
            if let Some(pos) = (0..cur.len()).find(|p| cur[*p] != snap[*p] && !allowed.contains(p)) {
                let what = if pos < 16 * n { format!("descriptor {} byte {}", pos / 16, pos % 16) } else { format!("available ring byte {}", pos - 16 * n) };
                self.harness_errors.push(format!(
                    "unhooked store: {what} of queue {q} changed without a matching store observation point (last event {ev:?}); a store to device-visible queue memory was added to the driver without a hook, so C02 can no longer see every intermediate state"
                ));
            }
        }
        self.store_audit = Some((aq, cur));
    }

    pub fn on_store(&mut self, kind: u32, q: u16, index: u16) {
        self.ev(0x20 + kind as u8, q as u64, index as u64);
        self.audit_stores(q, Some((kind, index)));
        self.store_events += 1;
        if kind == 2 {
            if let Some(d) = self.dq.get_mut(q as usize) {
                d.hook_idx = Some(index);
            }
        }
        if (kind as usize) < 5 {
            self.store_kinds[kind as usize] += 1;
        }
        if let Some((gq, seen)) = self.add_guard {
            if gq == q {
                if seen {
                    self.violation(
                        "store-after-avail-idx",
                        &format!("q{q}"),
                        format!(
                            "store kind {kind} (index {index}) to device-visible queue memory after the \
                             available index of the same submission was already stored"
                        ),
                    );
                }
                if kind == 2 {
                    self.add_guard = Some((gq, true));
                }
            }
        }
        if let Some(t) = &mut self.trace {
            if t.len() < 100_000 {
                let k = ["desc", "avail.ring", "avail.idx", "used_event", "avail.flags"]
                    .get(kind as usize)
                    .copied()
                    .unwrap_or("?");
                t.push(format!("[{}] store {k} q{q} index/value {index}", self.tick));
            }
        }
        if (q as usize) < self.dq.len() && self.cfg.validate && self.qreg(q).is_some() {
            match kind {
                0 => {
                    if let Some(owner) = self.dq[q as usize].desc_owner.get(&index).copied() {
                        self.violation(
                            "inflight-descriptor-modified",
                            &format!("q{q}"),
                            format!(
                                "descriptor {index} was rewritten while it belongs to chain {owner} \
                                 which the device has not completed"
                            ),
                        );
                    }
                }
                1 => {
                    if let Some(owner) = self.dq[q as usize].slot_owner.get(&index).copied() {
                        self.violation(
                            "inflight-ring-slot-modified",
                            &format!("q{q}"),
                            format!(
                                "available ring slot {index} was rewritten while chain {owner} \
                                 published in it has not been read by the device yet (device state: validated {} fetched {} used {} pending {:?} observed {:?})",
                                self.dq[q as usize].validated_avail,
                                self.dq[q as usize].last_avail,
                                self.dq[q as usize].used_idx,
                                self.dq[q as usize].pending.iter().map(|c| (c.head, c.avail_pos)).collect::<Vec<_>>(),
                                self.dq[q as usize].observed.iter().map(|c| (c.head, c.avail_pos)).collect::<Vec<_>>()
                            ),
                        );
                    }
                }
                _ => {}
            }
            // Whatever the store was: a device may look now.
            let site = match kind {
                0 => "after-desc-store",
                1 => "after-ring-store",
                2 => "after-idx-store",
                3 => "after-used-event-store",
                _ => "after-flags-store",
            };
            self.observe_queue(q, site);
        }
        self.sched_point(PointKind::Store);
    }

    pub fn on_spin(&mut self, site: u32) {
        if site == SPIN_POLL_EMPTY {
            // `can_pop` found nothing. A single unsuccessful poll is not a busy-wait; a run of
            // them with no other driver activity in between (no transport call, store, platform
            // call or operation boundary) is a loop that polls plain memory - one the library has
            // no dedicated hook for, e.g. newly written code - and from then on every iteration
            // is a moment at which the device may act (and the supervisor counts).
            self.poll_empty_run += 1;
            if self.poll_empty_run < POLL_EMPTY_LOOP {
                return;
            }
            self.stats.probes.entry("unhooked_poll_loop").and_modify(|c| *c += 1).or_insert(1);
        }
        self.ev(0x30, site as u64, 0);
        self.sched_point(PointKind::Spin);
    }

    pub fn on_notify(&mut self, q: u16) {
        self.ev(0x40, q as u64, 0);
        self.tr.notifies += 1;
        if self.tr.status & ST_DRIVER_OK == 0 {
            // A device is not required to act on (or remember) a notification it receives before
            // DRIVER_OK; this one ignores it.
            self.tr.notify_before_driver_ok += 1;
            if self.cfg.validate {
                self.violation(
                    "notify-before-driver-ok",
                    &format!("q{q}"),
                    format!("available-buffer notification for queue {q} sent before DRIVER_OK (status {:#x})", self.tr.status),
                );
            }
            return;
        }
        if let Some(dq) = self.dq.get_mut(q as usize) {
            dq.notified = true;
        }
    }

    // ---------------------------------------------------------------------------------------
    // device steps

    fn unfetched(&self, q: u16) -> bool {
        match self.avail_idx_mem(q) {
            Some(i) => i != self.dq[q as usize].last_avail,
            None => false,
        }
    }

    fn fetch_enabled(&self, q: u16) -> bool {
        let dq = &self.dq[q as usize];
        match self.cfg.serve {
            ServePolicy::Poll => dq.notified || self.unfetched(q),
            ServePolicy::NotifyOnly => match self.cfg.suppress {
                Suppress::Never => dq.notified,
                Suppress::WhileBusy => dq.notified || dq.recheck || (!dq.armed && self.unfetched(q)),
            },
        }
    }

    fn rearm_enabled(&self, q: u16) -> bool {
        let dq = &self.dq[q as usize];
        self.cfg.serve == ServePolicy::NotifyOnly
            && self.cfg.suppress == Suppress::WhileBusy
            && !dq.armed
            && !dq.notified
            && !self.unfetched(q)
    }

    fn completable_indices(&self, q: u16) -> Vec<usize> {
        let dq = &self.dq[q as usize];
        let Some(dev) = self.dev.as_ref() else {
            return vec![];
        };
        let mut v = Vec::new();
        for (i, c) in dq.pending.iter().enumerate() {
            if dev.completable(q, c) {
                v.push(i);
                if self.cfg.in_order {
                    break;
                }
            } else if self.cfg.in_order {
                break;
            }
        }
        v
    }

    pub fn device_can_progress(&self) -> bool {
        if self.tr.status & ST_DRIVER_OK == 0 && !self.tr.legacy_pre_ok_allowed() {
            // a device does not process queues before DRIVER_OK (same gate as `device_step`)
            return false;
        }
        for q in 0..self.dq.len() as u16 {
            if self.qreg(q).is_none() {
                continue;
            }
            if self.fetch_enabled(q) || self.rearm_enabled(q) || !self.completable_indices(q).is_empty() {
                return true;
            }
        }
        false
    }

    /// At a driver-level operation boundary: a device that only acts on notifications must have
    /// been told about everything that is available (the driver APIs notify by themselves).
    pub fn check_no_lost_wakeup(&mut self, site: &str) {
        if self.cfg.serve != ServePolicy::NotifyOnly || !self.cfg.validate {
            return;
        }
        for q in 0..self.dq.len() as u16 {
            if self.qreg(q).is_none() || !self.tr.live(q) {
                continue;
            }
            let dq = &self.dq[q as usize];
            let waiting_for_kick = match self.cfg.suppress {
                Suppress::Never => true,
                Suppress::WhileBusy => dq.armed && !dq.recheck,
            };
            if waiting_for_kick && !dq.notified && self.unfetched(q) {
                let (la, idx) = (dq.last_avail, self.avail_idx_mem(q).unwrap_or(0));
                self.violation(
                    "lost-notification",
                    &format!("{site}/q{q}"),
                    format!(
                        "driver call returned with available entries {la}..{idx} on queue {q} that the device has not been notified about, although the device did not suppress notifications"
                    ),
                );
            }
        }
    }

    /// One atomic device action, chosen by the tape among everything currently enabled.
    /// Returns false if nothing was enabled.
    pub fn device_step(&mut self) -> bool {
        #[derive(Clone, Copy)]
        enum A {
            Fetch(u16),
            Rearm(u16),
            Complete(u16, usize),
        }
        if self.tr.status & ST_DRIVER_OK == 0 && !self.tr.legacy_pre_ok_allowed() {
            // A device does not process queues before DRIVER_OK.
            return false;
        }
        let mut acts: Vec<A> = Vec::new();
        for q in 0..self.dq.len() as u16 {
            if self.qreg(q).is_none() {
                continue;
            }
            if self.fetch_enabled(q) {
                acts.push(A::Fetch(q));
            }
            if self.rearm_enabled(q) {
                acts.push(A::Rearm(q));
            }
            for i in self.completable_indices(q) {
                acts.push(A::Complete(q, i));
            }
        }
        if acts.is_empty() {
            return false;
        }
        self.stats.device_steps += 1;
        let a = if self.quiet { acts[0] } else { acts[self.tape.choose(acts.len() as u64) as usize] };
        self.in_device = true;
        match a {
            A::Fetch(q) => self.do_fetch(q),
            A::Rearm(q) => {
                self.ev(0x51, q as u64, 0);
                let la = self.dq[q as usize].last_avail;
                if self.tr.negotiated(F_EVENT_IDX) {
                    self.write_avail_event(q, la);
                } else {
                    self.write_used_flags(q, 0);
                }
                let dq = &mut self.dq[q as usize];
                dq.armed = true;
                dq.recheck = true;
            }
            A::Complete(q, i) => self.do_complete(q, i),
        }
        self.in_device = false;
        true
    }

    fn do_fetch(&mut self, q: u16) {
        self.ev(0x50, q as u64, 0);
        {
            let dq = &mut self.dq[q as usize];
            dq.notified = false;
            dq.recheck = false;
        }
        self.observe_queue(q, "device-fetch");
        if let Some(t) = &mut self.trace {
            if t.len() < 100_000 {
                t.push(format!("[{}] device fetches q{q}: {} new chain(s)", self.tick, self.dq[q as usize].observed.len()));
            }
        }
        let dq = &mut self.dq[q as usize];
        let got = dq.observed.len();
        let obs = std::mem::take(&mut dq.observed);
        // Once the device has read a ring slot the driver may reuse it (with out-of-order
        // completion the chain published in it can still be outstanding at that time).
        dq.slot_owner.clear();
        dq.pending.extend(obs);
        dq.last_avail = dq.validated_avail;
        dq.fetched += got as u64;
        let la = dq.last_avail;
        if dq.pending.len() >= 2 {
            *self.stats.probes.entry("chains_outstanding>=2").or_insert(0) += 1;
        }
        if dq.pending.len() >= 3 {
            *self.stats.probes.entry("chains_outstanding>=3").or_insert(0) += 1;
        }
        let event_idx = self.tr.negotiated(F_EVENT_IDX);
        match (self.cfg.serve, self.cfg.suppress) {
            (ServePolicy::NotifyOnly, Suppress::WhileBusy) => {
                if got > 0 {
                    let was_armed = self.dq[q as usize].armed;
                    self.dq[q as usize].armed = false;
                    if was_armed {
                        if !event_idx {
                            self.write_used_flags(q, 1);
                            *self.stats.faults.entry("suppress_flag").or_insert(0) += 1;
                        } else {
                            *self.stats.faults.entry("suppress_event_idx").or_insert(0) += 1;
                        }
                    }
                }
            }
            (ServePolicy::Poll, Suppress::WhileBusy) => {
                if !event_idx {
                    self.write_used_flags(q, 1);
                }
            }
            (_, Suppress::Never) => {
                if event_idx {
                    self.write_avail_event(q, la);
                }
            }
        }
    }

    fn do_complete(&mut self, q: u16, i: usize) {
        let chain = self.dq[q as usize].pending.remove(i);
        if i != 0 {
            *self.stats.faults.entry("completion_reorder").or_insert(0) += 1;
        }
        self.ev(0x52, q as u64, chain.head as u64);
        if let Some(t) = &mut self.trace {
            if t.len() < 100_000 {
                t.push(format!("[{}] device completes chain head {} (avail pos {}) on q{q}", self.tick, chain.head, chain.avail_pos));
            }
        }
        let mut dev = self.dev.take().expect("personality");
        let len = {
            let mut ctx = DevCtx {
                hal: &mut self.hal,
                tr: &mut self.tr,
                tape: &mut self.tape,
                violations: &mut self.violations,
                stats: &mut self.stats,
                tick: self.tick,
                quiet_mem_faults: self.cfg.hostile,
            };
            dev.complete(q, &chain, &mut ctx)
        };
        self.dev = Some(dev);
        self.push_used(q, chain.head as u32, len);
        self.release_chain(q, &chain);
    }

    /// Forget the in-flight bookkeeping of a chain (device is done with it).
    pub fn release_chain(&mut self, q: u16, chain: &Chain) {
        let size = self.tr.queues[q as usize].size.max(1);
        let dq = &mut self.dq[q as usize];
        for d in &chain.descs {
            dq.desc_owner.remove(d);
        }
        let slot = (chain.avail_pos as u32 % size) as u16;
        if dq.slot_owner.get(&slot) == Some(&chain.head) {
            dq.slot_owner.remove(&slot);
        }
        let addrs: Vec<u64> = chain
            .elems
            .iter()
            .map(|e| e.addr)
            .chain(chain.indirect.iter().map(|t| t.0))
            .collect();
        for a in addrs {
            if let Some((_, s)) = self.hal.shares.range_mut(..=a).next_back() {
                if a < s.paddr + s.len as u64 {
                    s.posted_on = None;
                }
            }
        }
        crate::heapwatch::sync(self);
    }

    /// Writes one used element and publishes it; decides about the interrupt.
    pub fn push_used(&mut self, q: u16, id: u32, len: u32) {
        let Some(reg) = self.qreg(q).cloned() else {
            return;
        };
        let (id, len) = if self.cfg.hostile { self.hostile_elem(q, reg.size, id, len) } else { (id, len) };
        let old = self.dq[q as usize].used_idx;
        let slot = old as u32 % reg.size;
        let mut e = [0u8; 8];
        e[0..4].copy_from_slice(&id.to_le_bytes());
        e[4..8].copy_from_slice(&len.to_le_bytes());
        let r1 = self.hal.dev_write(reg.device + 4 + 8 * slot as u64, &e);
        let new = old.wrapping_add(1);
        let r2 = self.hal.dev_write(reg.device + 2, &new.to_le_bytes());
        if let Err(f) = r1.and(r2) {
            self.violation("device-mem-fault", "used-ring", format!("{} {:#x}", f.why, f.paddr));
        }
        if new == 0 {
            *self.stats.probes.entry("used_idx_wrapped").or_insert(0) += 1;
        }
        if let Some(t) = &mut self.trace {
            if t.len() < 100_000 {
                t.push(format!("[{}] device writes used[{}] = (id {id}, len {len}), used.idx = {new} on q{q}", self.tick, slot));
            }
        }
        let new = if self.cfg.hostile && self.tape.choose(8) == 1 {
            // the used index jumps: forwards over entries never written, or backwards
            let j = match self.tape.choose(4) {
                0 => new.wrapping_add(1 + self.tape.choose(reg.size as u64) as u16),
                1 => new.wrapping_sub(1 + self.tape.choose(3) as u16),
                2 => self.tape.choose(0x10000) as u16,
                _ => new.wrapping_add(reg.size as u16),
            };
            let _ = self.hal.dev_write(reg.device + 2, &j.to_le_bytes());
            *self.stats.faults.entry("used_idx_jump").or_insert(0) += 1;
            j
        } else {
            new
        };
        self.dq[q as usize].used_idx = new;
        self.dq[q as usize].completed += 1;
        if self.dq[q as usize].used_fifo.len() < 70_000 {
            self.dq[q as usize].used_fifo.push_back((id, len));
        }
        // interrupt decision per spec
        let want = if self.tr.negotiated(F_EVENT_IDX) {
            let ue = self.used_event_mem(q).unwrap_or(0);
            vring_need_event(ue, new, old)
        } else {
            self.avail_flags_mem(q).unwrap_or(0) & 1 == 0
        };
        if !want
            && self.cfg.validate
            && !self.cfg.scribble
            && self.tr.negotiated(F_EVENT_IDX)
            && self.dq[q as usize].consumed == Some(old)
        {
            let ue = self.used_event_mem(q).unwrap_or(0);
            self.violation(
                "interrupt-not-armed",
                &format!("q{q}"),
                format!(
                    "the driver has consumed all {old} earlier completions, yet used_event={ue} makes a \
                     specification-following device suppress the interrupt for completion {old}"
                ),
            );
        }
        if want {
            self.tr.isr |= 1;
            self.dq[q as usize].interrupts += 1;
        } else {
            self.dq[q as usize].interrupts_suppressed += 1;
        }
    }
}

impl World {
    fn hostile_elem(&mut self, q: u16, size: u32, id: u32, len: u32) -> (u32, u32) {
        let mut id2 = id;
        let mut len2 = len;
        match self.tape.choose(8) {
            0 => {
                id2 = self.tape.choose(size as u64) as u32;
                *self.stats.faults.entry("used_id_never_issued").or_insert(0) += 1;
            }
            1 => {
                let r = &self.dq[q as usize].reported_ids;
                if !r.is_empty() {
                    id2 = r[self.tape.choose(r.len() as u64) as usize];
                    *self.stats.faults.entry("used_id_repeated").or_insert(0) += 1;
                }
            }
            2 => {
                id2 = match self.tape.choose(4) {
                    0 => size,
                    1 => size + self.tape.choose(1000) as u32,
                    2 => 0x1_0000 + self.tape.choose(size as u64) as u32,
                    _ => u32::MAX,
                };
                *self.stats.faults.entry("used_id_out_of_range").or_insert(0) += 1;
            }
            _ => {}
        }
        match self.tape.choose(8) {
            0 => {
                len2 = 0;
                *self.stats.faults.entry("used_len_zero").or_insert(0) += 1;
            }
            1 => {
                len2 = len.wrapping_add(1 + self.tape.choose(64) as u32);
                *self.stats.faults.entry("used_len_long").or_insert(0) += 1;
            }
            2 => {
                len2 = [0x1_0000u32, 0x7fff_ffff, u32::MAX, 0x1000, 0x1001][self.tape.choose(5) as usize];
                *self.stats.faults.entry("used_len_huge").or_insert(0) += 1;
            }
            3 => {
                len2 = self.tape.choose(len as u64 + 1) as u32;
                *self.stats.faults.entry("used_len_short").or_insert(0) += 1;
            }
            _ => {}
        }
        if self.dq[q as usize].reported_ids.len() < 64 {
            self.dq[q as usize].reported_ids.push(id);
        }
        (id2, len2)
    }

    /// The misbehaving device overwrites driver-owned queue areas it has already read.
    pub fn scribble(&mut self) {
        for q in 0..self.dq.len() as u16 {
            let Some(reg) = self.qreg(q).cloned() else { continue };
            if self.tape.choose(3) != 1 {
                continue;
            }
            let n = 1 + self.tape.choose(4);
            for _ in 0..n {
                let mut junk = [0u8; 16];
                for b in junk.iter_mut() {
                    *b = self.tape.choose(256) as u8;
                }
                match self.tape.choose(5) {
                    0 | 1 => {
                        let i = self.tape.choose(reg.size as u64);
                        self.hal.dev_scribble(reg.desc + 16 * i, &junk);
                        *self.stats.faults.entry("scribble_desc").or_insert(0) += 1;
                    }
                    2 => {
                        let i = self.tape.choose(reg.size as u64);
                        self.hal.dev_scribble(reg.driver + 4 + 2 * i, &junk[..2]);
                        *self.stats.faults.entry("scribble_avail").or_insert(0) += 1;
                    }
                    3 => {
                        // flags and idx
                        self.hal.dev_scribble(reg.driver, &junk[..4]);
                        *self.stats.faults.entry("scribble_avail").or_insert(0) += 1;
                    }
                    _ => {
                        self.hal.dev_scribble(reg.driver + 4 + 2 * reg.size as u64, &junk[..2]);
                        *self.stats.faults.entry("scribble_used_event").or_insert(0) += 1;
                    }
                }
            }
        }
    }
}

impl TrState {
    /// Legacy devices historically processed buffers before DRIVER_OK; we never rely on that.
    pub fn legacy_pre_ok_allowed(&self) -> bool {
        false
    }
}
