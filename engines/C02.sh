#!/bin/bash
# C02, Miri engine: driver thread and a real device thread under Miri's seeded scheduler and
# data-race detector (memory-model side of "the index is published last").
source "$(dirname "$0")/common.sh"
tier="${1:-quick}"
n=16; [ "$tier" = thorough ] && n=256
cd "$HERE/sim-miri" || exit 2
start=$(date +%s.%N)
out="$HERE/sim-miri/target/miri-C02.out"; mkdir -p "$HERE/sim-miri/target"
MIRIFLAGS="-Zmiri-many-seeds=0..$n -Zmiri-preemption-rate=0.1 -Zmiri-permissive-provenance -Zmiri-disable-isolation" \
    cargo +nightly miri run --offline >"$out" 2>&1
rc=$?
wall=$(echo "$(date +%s.%N) - $start" | bc)
ok=$(grep -c "^miri scenarios ok" "$out")
if [ $rc -ne 0 ]; then
    if grep -q "Undefined Behavior\|FAILING SEED\|panicked" "$out"; then
        mkdir -p "$HERE/replays"
        seed=$(grep -m1 "FAILING SEED" "$out" | sed 's/.*: //')
        rep="$HERE/replays/C02-miri-seed-${seed:-unknown}.txt"
        { echo "replay: cd /verif/sim-miri && MIRIFLAGS='-Zmiri-seed=${seed} -Zmiri-preemption-rate=0.1 -Zmiri-permissive-provenance -Zmiri-disable-isolation' cargo +nightly miri run --offline"; grep -v '^\s*$' "$out" | tail -60; } >"$rep"
        echo "VIOLATION property=C02 replay=$rep"
        echo "  miri: $(grep -m1 -E 'error: Undefined Behavior|panicked' "$out")"
        python3 "$HERE/engines/merge.py" C02 miri "{\"seeds\": $n, \"seeds_clean\": $ok, \"wall_s\": $wall, \"violations\": 1, \"scenarios\": [\"direct\", \"indirect\", \"event-idx\", \"recycle\"], \"engine\": \"miri (seeded scheduler + data-race detector), device on a real thread\"}"
        exit 1
    fi
    tail -20 "$out"
    echo "HARNESS-ERROR: miri could not run"
    exit 2
fi
python3 "$HERE/engines/merge.py" C02 miri "{\"seeds\": $n, \"seeds_clean\": $ok, \"wall_s\": $wall, \"violations\": 0, \"scenarios\": [\"direct\", \"indirect\", \"event-idx\", \"recycle\"], \"engine\": \"miri (seeded scheduler + data-race detector), device on a real thread\"}"
echo "C02 $tier [miri]: $ok of $n seeds clean, ${wall}s"
exit 0
