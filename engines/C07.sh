#!/bin/bash
# C07 additional engines: wrapping profile (no overflow checks / debug assertions: what users ship)
# in both tiers; AddressSanitizer build in the thorough tier.
source "$(dirname "$0")/common.sh"
tier="${1:-quick}"
run_profile C07 "$tier" wrapping wrapping || exit $?
if [ "$tier" = thorough ]; then run_asan C07 "$tier" || exit $?; fi
exit 0
