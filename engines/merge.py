#!/usr/bin/env python3
"""merge.py <id> <label> <json-or-file>: records an additional engine's result in evidence/<id>.json"""
import json, sys, os
vid, label, src = sys.argv[1:4]
base = os.path.join(os.path.dirname(os.path.abspath(__file__)), "..", "evidence")
p = os.path.join(base, f"{vid}.json")
ev = json.load(open(p))
if os.path.exists(src):
    extra = json.load(open(src))
    cov = extra.get("coverage", {})
    info = {k: cov.get(k) for k in ("evaluations", "distinct_nontrivial", "distinct_executions", "faults_fired", "reach_probes", "engine", "batches")}
    info["wall_s"] = extra.get("wall_s")
    info["violations"] = extra.get("violations")
    os.remove(src)
else:
    info = json.loads(src)
ev["coverage"].setdefault("additional_engines", {})[label] = info
ev["violations"] = int(ev.get("violations", 0)) + int(info.get("violations") or 0)
ev["wall_s"] = float(ev.get("wall_s", 0)) + float(info.get("wall_s") or 0)
json.dump(ev, open(p, "w"), indent=1)
