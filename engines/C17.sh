#!/bin/bash
# C17 additional engine: wrapping profile (no overflow checks / debug assertions): an arithmetic
# overflow that panics in the checked build silently wraps here and must still be caught.
source "$(dirname "$0")/common.sh"
tier="${1:-quick}"
run_profile C17 "$tier" wrapping wrapping || exit $?
exit 0
