# sourced by the per-property engine scripts
HERE="$(cd "$(dirname "${BASH_SOURCE[0]}")/.." && pwd)"
export VERIF_DIR="$HERE" CARGO_NET_OFFLINE=true

# run_profile <id> <tier> <cargo profile> <label>: same check, other build profile of the simulator
run_profile() {
    local id="$1" tier="$2" profile="$3" label="$4"
    local log="$HERE/sim/target/build-$profile.log"
    (cd "$HERE/sim" && cargo build --offline --profile "$profile" >"$log" 2>&1) || { tail -30 "$log"; echo "HARNESS-ERROR: build of profile $profile failed"; return 2; }
    VERIF_EVIDENCE_SUFFIX=".$label" "$HERE/sim/target/$profile/vdsim" check "$id" --tier "$tier"
    local rc=$?
    [ -f "$HERE/evidence/$id.$label.json" ] && python3 "$HERE/engines/merge.py" "$id" "$label" "$HERE/evidence/$id.$label.json"
    return $rc
}

# run_asan <id> <tier>: the wrapping profile rebuilt with AddressSanitizer (nightly toolchain)
run_asan() {
    local id="$1" tier="$2"
    local log="$HERE/sim/target/build-asan.log"
    mkdir -p "$HERE/sim/target"
    (cd "$HERE/sim" && RUSTFLAGS="-Zsanitizer=address --cfg virtio_drivers_verif" cargo +nightly build --offline --target x86_64-unknown-linux-gnu --profile wrapping --target-dir "$HERE/sim/target/asan" >"$log" 2>&1) || { tail -30 "$log"; echo "HARNESS-ERROR: ASan build failed"; return 2; }
    local out="$HERE/sim/target/asan-$id.out"
    ASAN_OPTIONS=detect_leaks=0:abort_on_error=0:exitcode=99 VERIF_SCALE="${VERIF_ASAN_SCALE:-0.1}" VERIF_EVIDENCE_SUFFIX=".asan" \
        "$HERE/sim/target/asan/x86_64-unknown-linux-gnu/wrapping/vdsim" check "$id" --tier "$tier" >"$out" 2>&1
    local rc=$?
    grep -v "^KNOWN-FINDING" "$out" | tail -3
    if grep -q "ERROR: AddressSanitizer" "$out"; then
        mkdir -p "$HERE/replays"
        cp "$out" "$HERE/replays/$id-asan-report.txt"
        echo "VIOLATION property=$id replay=$HERE/replays/$id-asan-report.txt"
        echo "  AddressSanitizer: $(grep -m1 'ERROR: AddressSanitizer' "$out")"
        rc=1
    fi
    [ -f "$HERE/evidence/$id.asan.json" ] && python3 "$HERE/engines/merge.py" "$id" "asan" "$HERE/evidence/$id.asan.json"
    return $rc
}
