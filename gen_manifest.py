#!/usr/bin/env python3
"""Generates MANIFEST.json from the table below (kept in one place so it stays valid)."""
import json, subprocess

HOOK_COMMITS = ["fd2a26b", "7715f60", "41101d8"]

# id -> (category, technique, text, note)
CLAIMED = {}
def claim(id, cat, technique, text, note, design):
    CLAIMED[id] = dict(cat=cat, technique=technique, text=text, note=note, design=design)

SIM = "deterministic simulation with fault injection: real driver code against a seeded reference device, instrumented platform layer and workload generator; one seed = one replayable run; seeded search over histories, schedules and faults"

claim("C01", "exploration", SIM + "; oracle = device-side chain walk at every publication",
      "Seeded search over submission/completion histories on the real VirtQueue (all power-of-two sizes, direct/indirect, event-idx, access-platform, legacy/modern, device policy per run); every published chain is walked by an independent reference device and compared with the caller's buffers as device addresses; a borrowed batch runs every driver x transport x feature set (C08's grid) judged for chain/descriptor-ownership classes only, so that queue flags wired wrongly by a driver are seen. Sampling, not proof.",
      "Trusts the reference device core (sim/src/vq.rs), SimHal and the store hooks' placement; sequentially consistent memory at hook granularity.", "6/C01")
claim("C02", "exploration", SIM + "; observer validates all entries below avail.idx at every driver store",
      "At every store to device-visible queue memory (guarded hook) an observer reads the available index from memory and validates every entry below it; additional monitors: no store after the index store of a submission, no rewrite of an in-flight descriptor or unread ring slot. Sampling of histories; the store points inside each history are all visited.",
      "Native engine is sequentially consistent at store granularity; release/fence semantics are decided by the Miri engine (engines/C02.sh: device on a real thread, seeded scheduler, data-race detector), which runs in both tiers. Non-coherent DMA not modelled.", "6/C02")
claim("C03", "exploration", SIM + "; lock-step reference model of outstanding chains / used FIFO / free count, >65536-submission runs",
      "Reference model checked after every operation (accept/refuse decisions, error values, side-effect freedom of failed polls, byte counts, available_desc, fill-to-capacity probes); dedicated runs exceed 65536 submissions so all 16-bit indices wrap with chains outstanding.",
      "Sampling of histories; completion order chosen by the seeded scheduler.", "6/C03")
claim("C04", "exploration", SIM + "; online ledger invariants of a bouncing platform layer",
      "SimHal bounces every buffer to a fresh device address and checks share/unshare pairing, arguments, direction and the returned device address online; the device model can only touch live shares/DMA in the permitted direction; caller-visible data is checked at consumption; borrowed driver-level batches (block, sound, GPU scenarios) are judged for the sharing-ledger classes only, plus: after every blocking request completed and the driver was dropped no request buffer is still shared.",
      "Platform always bounces; sampling of histories.", "6/C04")
claim("C05", "exploration", SIM + "; notification predicate vs vring_need_event, device-side suppression state, busy-wait supervision for lost wake-ups",
      "should_notify is compared with the specification predicate after batches of up to SIZE submissions including across the 16-bit wrap; avail.flags/used_event are read from the device side; blocking helpers run against notify-only / polling / delaying devices with a supervisor that turns a wait that can never end into a violation; a borrowed batch runs C08's driver grid judged for the notification classes only (used_event re-armed on every request queue, no lost wake-up at call boundaries).",
      "Liveness bound of 4 idle device opportunities; interrupts are not asynchronous control flow (library installs no handlers).", "6/C05")

claim("C06", "exploration", SIM + "; configuration grid enumerated completely inside the simulated world, seam-history oracle",
      "All 1280 cells of sizes x layout x flags x transport answers are visited in every round; the queue_set arguments, DMA ledger and ring contents are checked against the specification's layout rules; release is checked on drop and on second-allocation failure.",
      "Grid is exhaustive, DMA placement/queue index/failure injection are sampled; model transport only (real transports in C10/C11).", "6/C06")
claim("C10", "exploration", SIM + "; register-level reference device behind the MMIO seam, per-operation trace oracle",
      "Real MmioTransport/SomeTransport over a register-level virtio-mmio reference device (legacy and modern) through safe-mmio's custom-mmio seam: every access is checked for width, alignment, direction, version and ordering; per operation the ordered trace is compared with the specification's prescription; random headers at probe time.",
      "Register table transcribed from VirtIO 1.2 4.2.2/4.2.4; sampling of operation sequences and arguments.", "6/C10")
claim("C14", "exploration", SIM + "; reference block device with sparse disk, out-of-order completion, per-request status faults",
      "VirtIOBlk over model/MMIO/PCI transports against a reference block device that checks the shape of every request; blocking and non-blocking API with several requests outstanding completed in scheduler-chosen order; status mapping, data integrity, capacity/RO/FLUSH negotiation; capacity read under a device that changes its configuration during construction (C13's torn-read scenario for the block device).",
      "Blocking calls only with nothing else outstanding; sampling of histories.", "6/C14")

claim("C15", "exploration", SIM + "; reference console owning a position-identifying byte stream, delivery moments chosen by the scheduler",
      "Interleavings of recv(peek/pop), read, fill_buf+consume, read_ready, ack_interrupt and all send variants against a console device whose deliveries happen at scheduler-chosen points (incl. inside notify, at store hooks and in busy-wait iterations); stream equality, at-most-one receive buffer, re-post only after consumption, exact transmit contents.",
      "Blocking reads only while bytes can still arrive; sampling of interleavings.", "6/C15")
claim("C16", "exploration", SIM + "; reference NIC, conservation invariant after every operation",
      "Raw and buffer-managing network drivers against a NIC that delivers into any posted buffer in bursts; exact frame/length checks both ways, header size by negotiated VERSION_1, receive-buffer conservation after every operation, readiness queries vs model.",
      "Sampling of sequences; MRG_RXBUF never negotiated by the driver.", "6/C16")
claim("C17", "exploration", SIM + "; reference peers with both credit windows in lock step, >4 GiB streams for counter wrap",
      "Lock-step reference model of both credit windows for every connection; every transmitted packet is decoded and compared field by field; honest peers never lose data; separate fault batches (credit exceeded, window shrunk, malformed packets); long-stream batches wrap tx_cnt and fwd_cnt with data in flight.",
      "Sampling; wrap batches sample payload bytes; one recorded known finding (re-request on a connection with unread data).", "6/C17")
claim("C18", "exploration", SIM + "; connection-table reference model stepped in lock step, all 16 (peer, port) pairs observed after every operation",
      "Histories of local operations and peer packets (incl. invalid/unknown/foreign) with a reference model of listening ports, connections, buffered data and shutdown state; events, errors, emitted packets and observable state compared after every operation; receive buffers returned after every poll.",
      "Sampling of histories.", "6/C18")
claim("C19", "exploration", SIM + "; event-source device completing driver-stocked buffers in any order and burst size",
      "OwningQueue (several shapes, handler succeeding/declining/failing, lying lengths), VirtIOInput and sound notifications: exactly-once in-order delivery with exact bytes, same token and same driver buffer re-posted (ledger identity), stock level after every poll, no delivery beyond the buffer.",
      "Sampling; vsock receive path covered by C17/C18.", "6/C19")
claim("C20", "exploration", SIM + "; reference GPU/sound/entropy/RTC/9P devices decoding every chain, error-response fault batches",
      "Reference devices decode each command against structures transcribed from the specification (field positions, sizes, reserved fields, command order, backing pinned while attached, PCM chunking/ordering); success and error-response batches are separate; returned values compared with what the device reported, EDID via an independent decoder; 9P mount tag under a device that changes its configuration during construction.",
      "Resolutions bounded; after a device error the run ends; sampling.", "6/C20")

claim("C08", "exploration", SIM + "; ordered seam log of construction for every driver x transport kind, reference devices judging behaviour under the negotiated features",
      "Grid of 11 drivers x 8 transport kinds (model, real MMIO legacy/modern, real PCI, SomeTransport) visited every round with drawn offered-feature sets; the ordered transport log must show reset, ACKNOWLEDGE|DRIVER, feature read, accepted set within offered and supported (VERSION_1 if offered), FEATURES_OK, queue setup, DRIVER_OK last, no notification before it; then a usage script is judged by the reference devices (indirect, event index, access_platform argument, flush/EDID/size gating, net header).",
      "Transport x driver grid exhaustive, feature sets sampled; HypPciTransport excluded.", "6/C08")
claim("C09", "fault_enumeration", SIM + "; the k-th DMA allocation fails for every k, always-on release monitors, drop at random points",
      "For every driver x transport kind x k the k-th DMA allocation of construction + usage fails: the call must return DmaError, everything allocated must come back exactly once with original arguments; monitors for queue memory of a live queue, pinned device memory and posted heap buffers run in every scenario; drop histories with requests outstanding on all transports; construction failing on malformed configuration.",
      "k enumerated 1..14 per cell (covers the largest allocation count, 12); histories sampled.", "6/C09")
claim("C11", "exploration", SIM + "; emulated PCI function with generated capabilities and BARs behind the MMIO seam, independent 128-bit verdict",
      "Generated configuration spaces through the real PciTransport::new (direct access and real MmioCam CAM/ECAM); verdict valid/invalid/either computed independently; construction may not panic, may not write configuration registers other than command/BARs, may only map windows inside memory BARs; valid functions are driven through every operation with strict checking of window, field offset, access width, ordering, notify address, reset wait.",
      "Sampling of functions; one recorded known finding (capability naming the upper half of a 64-bit BAR).", "6/C11")
claim("C12", "exploration", SIM + "; stateful reference PCI function, ordered configuration log; cam_offset swept completely",
      "BAR layouts of every kind/size/slot with every command value probed through bar_info()/bars() behind both access paths: result equality, command and BARs restored (also on error returns), no BAR write while decoding; configuration addressing decoded back by the emulator; bus enumeration and capability walking against generated populations/lists; complete sweep of cam_offset as an exhaustive sub-space.",
      "Sampling except the cam_offset sweep; cyclic capability lists and BARs without writable bits excluded.", "6/C12")
claim("C13", "exploration", SIM + "; bounds via MMIO trace with offsets up to usize::MAX; configuration agent scheduled between individual register reads",
      "Real MMIO and PCI transports: every access either lies wholly inside the window and touches exactly those bytes, or fails with the right error and no access, no panic; multi-field reads (blk capacity, vsock CID, console size, MAC, 9P tag) against a scheduler-controlled agent that installs self-identifying configuration versions at any access: the assembled value must belong to one exposed version.",
      "Legacy MMIO has no generation register (excluded for torn reads); sampling.", "6/C13")

claim("C07", "exploration", SIM + "; hostile device (wrong ids, lengths, index jumps, garbage responses/config) and scribbling device against queue, OwningQueue and all drivers",
      "Hostile batches: the ledger of the platform layer and slice-length checks decide (no unshare/dealloc without live entry or twice, no slice beyond its buffer, no token handed out twice, calls end in Ok/Err/clean panic); scribbled batches: the ordinary scenarios keep their full functional oracles while the device overwrites descriptor table and available ring. Memory errors inside unsafe blocks that do not surface through the ledger are left to the ASan engine in the thorough tier when it is available.",
      "Hangs of blocking calls under a device that never answers correctly are not judged; allocation-size config fields capped; sampling.", "6/C07")

# Additions of the sixth round (kept separate so that the base texts above stay as reviewed).
def more(id, text, note=None):
    CLAIMED[id]["text"] += " " + text
    if note:
        CLAIMED[id]["note"] += " " + note

HEAP = "A further batch injects heap-allocation failure for exactly the indirect descriptor table (global allocator returns null): the failed submission must have no side effects, and a fallback to a direct chain needs as many free descriptors as buffers."
more("C01", HEAP)
more("C02", HEAP + " The blocking helper is also run with other requests in flight (it may be overtaken and must leave its own published entry untouched).")
more("C03", HEAP)
more("C04", HEAP + " The blocking helper is also run with other requests in flight: nothing may be unshared before its completion is consumed.")
more("C06", "A second batch runs the same cell checks over the real MMIO (legacy, modern, SomeTransport) and PCI transports with DMA memory placed just below 4 GiB multiples, so that what reaches the register-level device is compared with what the queue allocated.",
     "Real transports only for the 'queue free and large enough' answer.")
more("C07", "The bare-queue caller also models the library's fixed token-to-buffer callers (OwningQueue, input): with one-descriptor chains it presents the token the used ring names even when it is not outstanding, which must be refused without touching the free list.")
more("C08", "A monitor judges every access to a configuration field that exists or is valid only under a device feature (net status/mq/mtu, blk optional fields, console size/ports/emerg_wr, 9P mount tag) against the negotiated set; a borrowed batch runs every driver against a device that fails its requests, with subsets of the device-specific features, judged only for mechanisms used without negotiation.")
more("C12", "Capability lists of up to 48 entries (every dword slot of the device-specific area).")
more("C16", "Blocking receive_wait (with the frame arriving while the driver waits), interrupt enable/disable, packet_mut and TxBuffer::from are part of the operation mix.")
more("C17", "wait_for_event is used in place of poll whenever the next packet (already delivered or still to be delivered while the driver waits) is one the protocol says is reported. The >4 GiB receive runs use power-of-two and non-power-of-two buffer capacities; both >4 GiB loops have a bounded-liveness guard.")
more("C05", "Error paths of driver-level blocking helpers (playback with failing periods, block requests with error statuses) are borrowed and judged for the notification classes.")
more("C10", "QueueSel is judged by its effect (the device's selection at every per-queue access), so a correct selection cache is accepted; InterruptStatus values include bits the driver does not know.")
more("C18", "wait_for_event is used in place of poll whenever the next packet is one the protocol says is reported.")

# Corrections after the two rounds of property-preserving changes (DESIGN section 9).
more("C01", "The model follows the form of the chain the device sees (a queue with indirect descriptors may publish a chain directly, given the descriptors).")
more("C05", "The should_notify sweep asks exactly once per batch ('since the driver last checked').")
more("C10", "Reads of an operation's own read/write registers and stopping a live queue before programming it are accepted.")
more("C15", "Transmission is judged as a byte stream, not request by request.")
more("C16", "A receive buffer whose completion was malformed may be given up or put back on the queue; either way every buffer stays accounted for.")
more("C17", "One send may go out as several data packets; unsolicited credit updates with true values are accepted.")
more("C18", "One poll may handle several packets as long as all but the last are handled silently; a RST towards an address without connection is accepted.")
more("C19", "Completions may be fetched in a batch and handed out one per call; a buffer whose completion was oversized may be given up or posted again.")

more("C10", "queue_set is also issued on queues the device still has enabled, judged by what the device registers afterwards.")
more("C14", "A blocking call behind a foreign completion must fail without taking it (bouncing platform; the run ends there).")
more("C19", "A long-stream batch delivers several hundred input events per run.")
more("C20", "Sound buffers range from one to forty periods.")

TODO_REASON = "check not built yet in this round (planned, see DESIGN.md section 11); no claim is made"
ALL = ["C%02d" % i for i in range(1, 21)]

m = {
    "version": 1,
    "setup_cmd": "./check setup",
    "hooks": {
        "guard": "--cfg virtio_drivers_verif",
        "enable": "RUSTFLAGS=--cfg virtio_drivers_verif via /verif/sim/.cargo/config.toml (build.rustflags); safe-mmio feature custom-mmio via the harness manifest",
        "baseline_off_cmd": "cd /repo && cargo test --workspace --no-fail-fast --offline",
        "source_commits": HOOK_COMMITS,
        "add_only": True,
    },
    "engines": [
        {"name": "vdsim (native/checked)", "path": "sim", "serves_properties": sorted(CLAIMED), "kind_free_text": "hand-written deterministic simulator: PRNG choice tape, reference virtio devices, SimHal ledger, seeded scheduler at transport/store/spin/op points, tape shrinker, replay; built with overflow checks and debug assertions on"},
        {"name": "vdsim (native/wrapping)", "path": "sim (cargo profile 'wrapping')", "serves_properties": ["C07", "C09", "C11", "C13", "C17"], "kind_free_text": "same simulator and scenarios built without overflow checks / debug assertions (what users ship); run by engines/<id>.sh after the checked engine in both tiers"},
        {"name": "miri", "path": "sim-miri", "serves_properties": ["C02"], "kind_free_text": "driver thread + real device thread under Miri's seeded scheduler and data-race detector (release/acquire side of C02); engines/C02.sh, 16 seeds quick / 256 thorough"},
        {"name": "asan", "path": "sim (nightly, -Zsanitizer=address, profile 'wrapping')", "serves_properties": ["C07", "C09"], "kind_free_text": "AddressSanitizer build of the simulator, thorough tier only (engines/C07.sh, engines/C09.sh)"},
    ],
    "checks": [],
    "notes": "All checks: cwd /verif, ./check <id> --tier quick|thorough, honours VERIF_SEED and VERIF_TIER. Replay: ./check replay <file>. Determinism self-test: ./check determinism.",
    "not_applicable": [],
}
for id in ALL:
    if id in CLAIMED:
        c = CLAIMED[id]
        m["checks"].append({
            "property_id": id,
            "quick_cmd": f"./check {id} --tier quick",
            "thorough_cmd": f"./check {id} --tier thorough",
            "evidence_file": f"evidence/{id}.json",
            "replay_cmd_template": "./check replay {path}",
            "engine": "vdsim (native/checked)",
            "level_claimed": {"category": c["cat"], "text": c["text"], "design_ref": c["design"]},
            "level_note": c["note"],
            "technique": c["technique"],
        })
    else:
        m["not_applicable"].append({"property_id": id, "reason": TODO_REASON})
json.dump(m, open("/verif/MANIFEST.json", "w"), indent=1)
print("claimed", sorted(CLAIMED))
